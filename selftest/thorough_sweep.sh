#!/bin/sh
# Thorough tier of every check on the unchanged tree; prints one line per property. Not a registered command.
cd "$(dirname "$0")/.."
for i in 01 02 03 04 05 06 07 08 09 10 11 12 13 14 15 16 17 18 19 20; do
  p=C$i
  s=$(date +%s)
  VERIF_NO_EVIDENCE=1 ./check $p --tier thorough > /tmp/thorough_$p.txt 2>&1
  rc=$?
  echo "$p rc=$rc $(( $(date +%s) - s ))s $(grep -c '^VIOLATION' /tmp/thorough_$p.txt) violations $(grep -c '^KNOWN-FINDING' /tmp/thorough_$p.txt) known"
  [ $rc -ne 0 ] && grep '^# ' /tmp/thorough_$p.txt | head -5
done
