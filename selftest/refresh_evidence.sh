#!/bin/sh
# Regenerate every evidence file with the quick tier on the unchanged tree (/repo), then validate MANIFEST and
# evidence against the schemas.  Run before committing; not a registered command.
cd "$(dirname "$0")/.."
fail=0
for i in 01 02 03 04 05 06 07 08 09 10 11 12 13 14 15 16 17 18 19 20; do
  p=C$i
  s=$(date +%s)
  ./check $p --tier quick > /tmp/refresh_$p.txt 2>&1
  rc=$?
  echo "$p rc=$rc $(( $(date +%s) - s ))s $(grep -c '^VIOLATION' /tmp/refresh_$p.txt) violations $(grep -c '^KNOWN-FINDING' /tmp/refresh_$p.txt) known"
  [ $rc -ne 0 ] && fail=1
done
/opt/veriftools/pyvenv/bin/python - <<'PY'
import json, jsonschema
m = json.load(open('/verif/MANIFEST.json'))
jsonschema.validate(m, json.load(open('/root/.vp/MANIFEST.schema.json')))
es = json.load(open('/root/.vp/EVIDENCE.schema.json'))
for c in m['checks']:
    e = json.load(open(c['evidence_file']))
    jsonschema.validate(e, es)
    assert e['property_id'] == c['property_id'] and e['tier'] == 'quick' and e['violations'] == 0, c['property_id']
print('manifest and', len(m['checks']), 'evidence files valid')
PY
exit $fail
