#!/usr/bin/env python3
"""Re-evaluate every kept seeded change against the CURRENT machinery (regression for the checks themselves).

usage: selftest/reeval_seeds.py [--jobs 3] [--only SUBSTR] [--tier quick|meta]

For each /verif/seeded/<name>/ : scratch copy of /repo, apply patch.diff, run ./check <property> with
VERIF_REPO=<copy> (tier: quick first; the tier recorded in meta.json when quick does not catch it and --tier meta).
A seed counts as caught only when the check exits 1 with a VIOLATION line.  Writes selftest/seeds_report.json.
The unchanged tree must pass the same checks (run selftest/refresh_evidence.sh): a seed "caught" by a check that
also alarms on the unchanged tree proves nothing.
"""
import argparse
import concurrent.futures
import json
import os
import shutil
import subprocess
import tempfile
import time

VERIF = os.path.dirname(os.path.dirname(os.path.abspath(__file__)))
IGN = shutil.ignore_patterns('.git', 'htmlcov', 'test-output', '__pycache__', '*.egg-info', 'test-log.txt')


def one(name, tier_mode):
    d = os.path.join(VERIF, 'seeded', name)
    meta = json.load(open(os.path.join(d, 'meta.json')))
    prop = meta['breaks_property']
    base = tempfile.mkdtemp(prefix='verif-reseed-')
    res = {'seed': name, 'property': prop, 'runs': []}
    try:
        mut = os.path.join(base, 'mut')
        shutil.copytree('/repo', mut, ignore=IGN)
        p = subprocess.run(['patch', '-p1', '-i', os.path.join(d, 'patch.diff')], cwd=mut, capture_output=True, text=True)
        if p.returncode != 0:
            res['error'] = 'patch does not apply: ' + p.stdout[-200:]
            return res
        tiers = ['quick']
        if tier_mode == 'meta' and meta.get('tier', 'quick') != 'quick':
            tiers.append(meta['tier'])
        for tier in tiers:
            t0 = time.time()
            env = dict(os.environ, VERIF_REPO=mut, VERIF_NO_EVIDENCE='1', PYTHONDONTWRITEBYTECODE='1')
            p = subprocess.run([os.path.join(VERIF, 'check'), prop, '--tier', tier], cwd=VERIF, env=env,
                               capture_output=True, text=True)
            lines = (p.stdout + p.stderr).splitlines()
            viol = [ln for ln in lines if ln.startswith('VIOLATION')]
            why = [ln[2:].split(':')[1] if ln.count(':') else ln for ln in lines if ln.startswith('# ')]
            res['runs'].append({'tier': tier, 'rc': p.returncode, 'violations': len(viol), 'clauses': sorted(set(why))[:6],
                                'wall_s': round(time.time() - t0, 1),
                                'tail': '' if p.returncode in (0, 1) else (p.stdout + p.stderr)[-300:]})
            if p.returncode == 1 and viol:
                res['caught_by'] = tier
                break
    finally:
        shutil.rmtree(base, ignore_errors=True)
    return res


def main():
    ap = argparse.ArgumentParser()
    ap.add_argument('--jobs', type=int, default=3)
    ap.add_argument('--only', default='')
    ap.add_argument('--tier', default='meta')
    a = ap.parse_args()
    names = sorted(n for n in os.listdir(os.path.join(VERIF, 'seeded')) if a.only in n
                   and os.path.exists(os.path.join(VERIF, 'seeded', n, 'meta.json')))
    out = []
    with concurrent.futures.ThreadPoolExecutor(a.jobs) as ex:
        for r in ex.map(lambda n: one(n, a.tier), names):
            out.append(r)
            print(r['seed'], r.get('caught_by', 'MISSED' if 'error' not in r else r['error']),
                  [(x['tier'], x['rc'], x['wall_s']) for x in r['runs']], r['runs'][-1]['clauses'][:3] if r['runs'] else '',
                  flush=True)
    rep = {'seeds': len(out), 'caught_quick': sum(r.get('caught_by') == 'quick' for r in out),
           'caught_thorough_only': sum(r.get('caught_by') not in (None, 'quick') for r in out),
           'missed': [r['seed'] for r in out if 'caught_by' not in r], 'results': out}
    path = os.path.join(VERIF, 'selftest', 'seeds_report.json')
    if a.only and os.path.exists(path):          # merge a partial re-run into the existing report
        old = {r['seed']: r for r in json.load(open(path))['results']}
        old.update({r['seed']: r for r in out})
        allr = [old[k] for k in sorted(old)]
        rep = {'seeds': len(allr), 'caught_quick': sum(r.get('caught_by') == 'quick' for r in allr),
               'caught_thorough_only': sum(r.get('caught_by') not in (None, 'quick') for r in allr),
               'missed': [r['seed'] for r in allr if 'caught_by' not in r], 'results': allr}
    with open(path, 'w') as f:
        json.dump(rep, f, indent=1)
    print(json.dumps({k: v for k, v in rep.items() if k != 'results'}))
    subprocess.run(['git', 'checkout', '--', 'evidence/replays'], cwd=VERIF, capture_output=True)
    return 0 if not rep['missed'] else 1


if __name__ == '__main__':
    raise SystemExit(main())
