#!/usr/bin/env python3
"""Selftest of the binding: record a (valid) trace of the real library, corrupt ONE recorded field or drop ONE
event, and show that TLC rejects the corrupted trace (MISMATCH) while it accepts the original.

usage: selftest/corrupt_traces.py        (not a registered command; results summarised in DESIGN.md)
"""
import copy
import json
import os
import random
import shutil
import sys

VERIF = os.path.dirname(os.path.dirname(os.path.abspath(__file__)))
sys.path.insert(0, os.path.join(VERIF, 'harness'))
import common  # noqa: E402

CASES = [
    # (worker, args, module, cfg, list of (event name, corruption function, description))
    ('rec_ctx_worker.py', ['--prop', 'C07', '--only', '600'], 'TraceCtx', 'TraceCtx.cfg', [
        ('join', lambda e: e.update(res=e['res'] + [99]) if e['form'] == 'nary' else None, 'join result extent gets an extra object'),
        ('meet', lambda e: e.update(same=False), 'meet result is reported as not being a lattice member'),
        ('lattice.list', lambda e: e['res'].pop() if len(e['res']) > 1 else None, 'one concept dropped from the iteration'),
    ]),
    ('rec_ctx_worker.py', ['--prop', 'C06', '--only', '600'], 'TraceCtx', 'TraceCtx.cfg', [
        ('lattice.order', lambda e: e['dindex'].reverse() if len(e['dindex']) > 1 else None, 'dindex ranks reversed'),
        ('lattice.order', lambda e: e.update(inf=1), 'infimum is not the first member'),
    ]),
    ('rec_def_worker.py', ['--mode', 'walks', '--count', '40', '--only', '7'], 'TraceDef', 'TraceDef.cfg', [
        ('def.op', lambda e: e['post'][0]['objs'].reverse() if len(e['post'][0]['objs']) > 1 else None, 'object order of a live handle reversed'),
        ('def.op', lambda e: e.update(out='KeyError') if e['out'] == 'ok' else None, 'outcome class changed'),
        ('def.op', lambda e: e.update(fresh_eq=False), 'd == Definition(*d) reported false'),
    ]),
    ('rec_val_worker.py', ['--mode', 'random', '--count', '60'], 'TraceVal', 'TraceVal.cfg', [
        ('val.doc', lambda e: e.update(out='ok' if e['out'] != 'ok' else 'ValueError'), 'outcome flipped'),
        ('val.triple', lambda e: e.update(out='TypeError') if e['out'] != 'ok' else None, 'wrong exception class'),
    ]),
    ('rec_persist_worker.py', ['--only', '150'], 'TracePersist', 'TracePersist.cfg', [
        ('p.todict', lambda e: e.update(haslat=not e['haslat']), 'lattice presence in the export flipped'),
        ('p.load', lambda e: e.update(cached=not e.get('cached', False)) if e['out'] == 'ok' else None, 'lazy flag after load flipped'),
        ('p.obs', lambda e: e.update(obs='0' * 40), 'observation digest of the loaded lattice changed'),
    ]),
    ('rec_text_worker.py', ['--only', '40'], 'TraceText', 'TraceText.cfg', [
        ('t.dump', lambda e: e['cells'].append([1, 1]) if [1, 1] not in e['cells'] else e['cells'].remove([1, 1]), 'one cell flipped in the independently read text'),
        ('t.load', lambda e: e['objs'].reverse() if len(e['objs']) > 1 else e.update(eq=False), 'loaded objects reordered / unequal'),
    ]),
    # replayed behaviours of SessionSys.tla ({sessions} = file written by TLC's simulator)
    ('rec_session_worker.py', ['--prop', 'C11', '--emit', 'flags', '--cases', '{sessions}', '--shard', '0', '--nshards', '40'],
     'TraceSession', 'TraceSession.cfg', [
        ('s.step', lambda e: e['flags'][0].__setitem__(1, not e['flags'][0][1]) if e['flags'] else None, 'lazy flag of one live handle flipped'),
        ('s.step', lambda e: e['flags'].pop() if len(e['flags']) > 1 else None, 'one live handle missing from the observation'),
        ('s.obs', lambda e: e.update(obs='0' * 40), 'observation digest of a dropped handle changed'),
    ]),
    ('rec_session_worker.py', ['--prop', 'C05', '--emit', 'ctx', '--cases', '{sessions}', '--shard', '0', '--nshards', '40'],
     'TraceCtx', 'TraceCtx.cfg', [
        ('neighbors', lambda e: e['res'].pop() if e['res'] else None, 'one upper cover dropped from a query inside a session'),
        ('lattice.links', lambda e: next((u.pop() for u in e['up'] if u), None), 'one neighbour link dropped inside a session'),
    ]),
]


def main():
    work = common.scratch_dir('corrupt')
    ok = bad = 0
    try:
        sessions = common.session_hists(work, 'quick', 0)[0]
        for worker, args, module, cfg, corruptions in CASES:
            args = [x.replace('{sessions}', sessions) for x in args]
            src = os.path.join(work, 'orig.ndjson')
            common.run_py([worker] + args + ['--out', src])
            events = [json.loads(x) for x in open(src, encoding='utf-8')]
            mism, n, _ = common.validate_trace(module, cfg, src, work)
            own = [m for m in mism if not m['clause'].startswith('domain')]
            print(f'{worker} {" ".join(args)}: {n} events, original accepted: {not own}')
            if own:
                bad += 1
            rng = random.Random(1)
            for name, fn, desc in corruptions:
                idxs = [i for i, e in enumerate(events) if e['ev'] == name]
                rng.shuffle(idxs)
                done = False
                for i in idxs:
                    ev2 = copy.deepcopy(events)
                    before = json.dumps(ev2[i], sort_keys=True)
                    fn(ev2[i])
                    if json.dumps(ev2[i], sort_keys=True) == before:
                        continue
                    dst = os.path.join(work, 'corrupt.ndjson')
                    with open(dst, 'w', encoding='utf-8') as f:
                        for e in ev2:
                            f.write(json.dumps(e, separators=(',', ':')) + '\n')
                    m2, _, _ = common.validate_trace(module, cfg, dst, work)
                    hit = [m for m in m2 if m['line'] == i + 1]
                    status = 'REJECTED' if hit else 'ACCEPTED(!)'
                    print(f'   corrupt {name}@{i + 1}: {desc}: {status} {hit[0]["clause"] if hit else ""}')
                    ok += bool(hit)
                    bad += not hit
                    done = True
                    break
                if not done:
                    print(f'   corrupt {name}: no applicable event')
            # dropping one state-changing event
        print(f'{ok} corruptions rejected, {bad} problems')
    finally:
        shutil.rmtree(work, ignore_errors=True)
    sys.exit(1 if bad else 0)


if __name__ == '__main__':
    main()
