#!/usr/bin/env python3
"""False-alarm probe: apply a property-PRESERVING change to a scratch copy of /repo and run checks against it.

usage: selftest/try_benign.py <patch.diff> <property id>... [--tier quick]

The pinned suite must pass with the change; every listed check must exit 0 without a VIOLATION line.  Any alarm is a
defect of the machinery (a clause that demands more than the property states), to be corrected there.
"""
import json
import os
import shutil
import subprocess
import sys
import tempfile
import time

VERIF = os.path.dirname(os.path.dirname(os.path.abspath(__file__)))
IGN = shutil.ignore_patterns('.git', 'htmlcov', 'test-output', '__pycache__', '*.egg-info', 'test-log.txt')


def main():
    args = [a for a in sys.argv[1:] if not a.startswith('--')]
    tier = 'thorough' if '--thorough' in sys.argv else 'quick'
    patch, props = os.path.abspath(args[0]), args[1:]
    base = tempfile.mkdtemp(prefix='verif-benign-')
    res = {'patch': patch, 'tier': tier, 'checks': {}}
    try:
        mut = os.path.join(base, 'mut')
        shutil.copytree('/repo', mut, ignore=IGN)
        p = subprocess.run(['patch', '-p1', '-i', patch], cwd=mut, capture_output=True, text=True)
        if p.returncode:
            print(p.stdout + p.stderr)
            return 2
        env = dict(os.environ, PYTHONDONTWRITEBYTECODE='1')
        p = subprocess.run(['/venv/bin/python', '-m', 'pytest', '-q', '-p', 'no:cacheprovider', '--no-cov'], cwd=mut,
                           env=env, capture_output=True, text=True)
        res['tests_rc'] = p.returncode
        res['tests_tail'] = p.stdout.strip().splitlines()[-1:]
        alarms = 0
        for pid in props:
            t0 = time.time()
            p = subprocess.run([os.path.join(VERIF, 'check'), pid, '--tier', tier], cwd=VERIF, capture_output=True, text=True,
                               env=dict(os.environ, VERIF_REPO=mut, VERIF_NO_EVIDENCE='1'))
            out = p.stdout + p.stderr
            viol = [ln for ln in out.splitlines() if ln.startswith('VIOLATION')]
            why = [ln for ln in out.splitlines() if ln.startswith('# ')][:3]
            res['checks'][pid] = {'rc': p.returncode, 'violations': len(viol), 'why': why if p.returncode == 1 else out[-300:] if p.returncode else '',
                                  'wall_s': round(time.time() - t0, 1)}
            alarms += p.returncode != 0
            print(pid, res['checks'][pid], flush=True)
        res['alarms'] = alarms
    finally:
        shutil.rmtree(base, ignore_errors=True)
        subprocess.run(['git', 'checkout', '--', 'evidence'], cwd=VERIF)
    print(json.dumps({k: v for k, v in res.items() if k != 'checks'}))
    return 1 if res.get('alarms') or res.get('tests_rc') else 0


if __name__ == '__main__':
    sys.exit(main())
