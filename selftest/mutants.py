#!/usr/bin/env python3
"""Selftest: hand-written mutants of the library, each applied to a scratch copy (never /repo), must be
reported by the owning check.  Usage: selftest/mutants.py [--tests] [--only ID,...] [--tier quick]

Not a registered command; results are summarised in DESIGN.md.
"""
import argparse
import os
import shutil
import subprocess
import sys
import tempfile

VERIF = os.path.dirname(os.path.dirname(os.path.abspath(__file__)))

# (id, property, file, old, new)
M = [
    ('m01a', 'C01', 'concepts/matrices.py',
     "                    prime &= other[i]\n                i += shift\n                bitset >>= shift\n\n            return make_prime(prime)",
     "                    prime &= other[i] if i != 33 else Prime\n                i += shift\n                bitset >>= shift\n\n            return make_prime(prime)"),
    ('m02a', 'C02', 'concepts/contexts.py',
     "            intent, extent = intent.doubleprime()\n        else:",
     "            intent, extent = intent.doubleprime()\n            if len(items) > 2:\n                intent = self._Properties.frommembers(items)\n        else:"),
    ('m03a', 'C03', 'concepts/algorithms/lindig.py',
     "            else:\n                mapping[n_extent] = neighbor = (n_extent, n_intent, [], [extent])\n                push((n_extent.shortlex(), neighbor))",
     "            else:\n                mapping[n_extent] = neighbor = (n_extent, n_intent, [], [extent])\n                if len(mapping) != 7:\n                    push((n_extent.shortlex(), neighbor))"),
    ('m04a', 'C04', 'concepts/algorithms/fcbo.py',
     "                if j_lower & extent == j_lower:",
     "                if j_lower & extent == j_lower or j == 3:"),
    ('m05a', 'C05', 'concepts/algorithms/lindig.py',
     "            if n_extent in mapping:\n                mapping[n_extent][3].append(extent)",
     "            if n_extent in mapping:\n                if len(mapping[n_extent][3]) < 3:\n                    mapping[n_extent][3].append(extent)"),
    ('m06a', 'C06', 'concepts/lattices.py',
     "            c.lower_neighbors = tuple(sorted(lower, key=longlex))\n\n        self._init(self, context, concepts, mapping=mapping)",
     "            c.lower_neighbors = tuple(sorted(lower, key=shortlex))\n\n        self._init(self, context, concepts, mapping=mapping)"),
    ('m07a', 'C07', 'concepts/lattices.py',
     "        meet = self._context._Objects.reduce_and(extents)\n        return self._mapping[meet.double()]",
     "        extents = list(extents)\n        meet = self._context._Objects.reduce_and(extents[:3])\n        return self._mapping[meet.double()]"),
    ('m08a', 'C08', 'concepts/lattice_members.py',
     "        return (not not meet and meet != self._extent and meet != other._extent\n                and (self._extent | other._extent) != self.lattice.supremum._extent)",
     "        return (not not meet and meet != self._extent and meet != other._extent)"),
    ('m09a', 'C09', 'concepts/algorithms/common.py',
     "        if index > seen:", "        if index >= seen:"),
    ('m10a', 'C10', 'concepts/lattices.py',
     "            e = c._extent\n            c.atoms = tuple(a for a in atoms if e | a._extent == e)",
     "            e = c._extent\n            c.atoms = tuple(a for a in atoms if e & a._extent)"),
    ('m15b', 'C15', 'concepts/algorithms/lindig.py',
     "        if extent & ~objects_and_add & minimal:",
     "        if extent & ~objects_and_add & minimal and add != 4:"),
    ('m16a', 'C16', 'concepts/junctors.py',
     "        elif self is Replication:\n            self = Implication\n            left, right = right, left",
     "        elif self is Replication:\n            self = Implication"),
    ('m17a', 'C17', 'concepts/definitions.py',
     "        self._objects.add(obj)\n        self._properties |= properties\n        self._pairs.update((obj, p) for p in properties)",
     "        self._objects.add(obj)\n        self._properties |= set(properties)\n        self._pairs.update((obj, p) for p in properties)"),
    ('m17b', 'C17', 'concepts/definitions.py',
     "    objects = left._objects & right._objects\n",
     "    objects = set(left._objects) & set(right._objects)\n"),
    ('m18a', 'C18', 'concepts/contexts.py',
     "        for it in intent.powerset():\n            if it.prime() == extent:",
     "        for it in intent.powerset():\n            if it.prime() == extent and (it.count() != 2 or it == intent):"),
    ('m12a', 'C12', 'concepts/formats/base.py',
     "            return self.by_suffix[suffix.lower()]",
     "            return self.by_suffix[suffix]"),
    ('m12b', 'C12', 'concepts/formats/fimi.py',
     "        yield [i for i, value in enumerate(row) if value]",
     "        yield [i for i, value in enumerate(row, 1) if value]"),
    ('m12c', 'C12', 'concepts/formats/table.py',
     "    lines = (line.partition('#')[0].strip() for line in file)",
     "    lines = (line.partition('#')[0].partition(';')[0].strip() for line in file)"),
    ('m12d', 'C12', 'concepts/formats/csv_context.py',
     "        header = [object_header] + list(properties)",
     "        header = [object_header] + [p.strip() for p in properties]"),
    ('m13a', 'C13', 'concepts/definitions.py',
     "        self._objects.remove(obj)\n        self._pairs.difference_update((obj, p) for p in self._properties)",
     "        self._objects.remove(obj)"),
    ('m13b', 'C13', 'concepts/tools.py',
     "        if item in self._seen:\n            self._seen.remove(item)\n            self._items.remove(item)",
     "        if item in self._seen:\n            self._items.remove(item)"),
    ('m13c', 'C13', 'concepts/definitions.py',
     "        if not ignore_conflicts:\n            ensure_compatible(self, other)\n        self._objects |= other._objects",
     "        self._objects |= other._objects\n        if not ignore_conflicts:\n            ensure_compatible(self, other)"),
    ('m14a', 'C14', 'concepts/definitions.py',
     "        return self._fromargs(self._properties.copy(), self._objects.copy(),\n                              {(p, o) for (o, p) in self._pairs})",
     "        return self._fromargs(self._properties.copy(), self._objects,\n                              {(p, o) for (o, p) in self._pairs})"),
    ('m14b', 'C14', 'concepts/definitions.py',
     "            obj = self._objects.copy()\n            prop = self._properties.copy()\n            if objects is not None:",
     "            obj = self._objects.copy()\n            prop = self._properties if properties is None else self._properties.copy()\n            if objects is not None:"),
    ('m14c', 'C14', 'concepts/contexts.py',
     "        return (self.objects == other.objects\n                and self.properties == other.properties\n                and self.bools == other.bools)",
     "        return (set(self.objects) == set(other.objects)\n                and self.properties == other.properties\n                and self.bools == other.bools)"),
    ('m19a', 'C19', 'concepts/contexts.py',
     "            if not result.issubset(indexes):",
     "            if result and max(result) >= len(indexes):"),
    ('m19b', 'C19', 'concepts/contexts.py',
     "            or {len(b) for b in bools} != {len(properties)}):",
     "            or len(bools[0]) != len(properties)):"),
    ('m19c', 'C19', 'concepts/contexts.py',
     "        if lattice is not None and not lattice:\n            raise ValueError('empty lattice')",
     "        if lattice is not None and not lattice and not ignore_lattice:\n            raise ValueError('empty lattice')"),
    ('m20a', 'C20', 'concepts/visualize.py',
     "        if concept.properties:\n            dot.edge(name, name,\n                     taillabel=make_property_label(concept.properties),",
     "        if concept.properties and concept.lower_neighbors:\n            dot.edge(name, name,\n                     taillabel=make_property_label(concept.properties),"),
]


def main():
    ap = argparse.ArgumentParser()
    ap.add_argument('--tests', action='store_true', help='also run the pinned test suite on each mutant')
    ap.add_argument('--only', default='')
    ap.add_argument('--tier', default='quick')
    a = ap.parse_args()
    only = set(filter(None, a.only.split(',')))
    base = tempfile.mkdtemp(prefix='verif-selftest-')
    results = []
    try:
        for mid, prop, path, old, new in M:
            if only and mid not in only and prop not in only:
                continue
            tree = os.path.join(base, mid)
            shutil.copytree('/repo', tree, ignore=shutil.ignore_patterns('.git', 'htmlcov', 'test-output', '__pycache__', '*.egg-info'))
            p = os.path.join(tree, path)
            src = open(p).read()
            if src.count(old) != 1:
                results.append((mid, prop, 'PATCH-DOES-NOT-APPLY', ''))
                print(results[-1], flush=True)
                shutil.rmtree(tree)
                continue
            open(p, 'w').write(src.replace(old, new))
            tests = ''
            if a.tests:
                t = subprocess.run(['/venv/bin/python', '-m', 'pytest', '-q', '-p', 'no:cacheprovider', '-x',
                                    '--no-cov'], cwd=tree, capture_output=True, text=True)
                tests = 'tests-pass' if t.returncode == 0 else 'TESTS-FAIL'
            env = dict(os.environ, VERIF_REPO=tree, VERIF_NO_EVIDENCE='1')
            r = subprocess.run([os.path.join(VERIF, 'check'), prop, '--tier', a.tier], cwd=VERIF, env=env,
                               capture_output=True, text=True)
            nv = r.stdout.count('VIOLATION')
            status = 'caught' if r.returncode == 1 and nv else f'MISSED(rc={r.returncode})'
            first = next((ln for ln in r.stdout.splitlines() if ln.startswith('# ')), r.stderr[-300:])
            results.append((mid, prop, status, tests + ' ' + first[-120:]))
            print(results[-1], flush=True)
            shutil.rmtree(tree)
    finally:
        shutil.rmtree(base, ignore_errors=True)
        # the selftest rewrites evidence files with results from mutants: restore them from git
        subprocess.run(['git', 'checkout', '--', 'evidence'], cwd=VERIF)
    bad = [r for r in results if r[2] != 'caught']
    print(f'{len(results) - len(bad)}/{len(results)} mutants caught')
    sys.exit(1 if bad else 0)


if __name__ == '__main__':
    main()
