#!/usr/bin/env python3
"""Confirm a seeded change and run the checks against it, on scratch copies only (never /repo).

usage: selftest/try_seed.py <dir with patch.diff + demo.py> <property id> [--all] [--tier quick] [--keep NAME]

Steps: (1) scratch copy of /repo, clean: demo must exit 0; (2) apply patch: pinned test suite must pass, demo must
exit non-zero; (3) run ./check <id> (or every check with --all) with VERIF_REPO pointing at the patched copy.
With --keep the change is stored under /verif/seeded/<NAME>/ with a meta.json.
"""
import argparse
import json
import os
import shutil
import subprocess
import sys
import tempfile
import time

VERIF = os.path.dirname(os.path.dirname(os.path.abspath(__file__)))
IGN = shutil.ignore_patterns('.git', 'htmlcov', 'test-output', '__pycache__', '*.egg-info', 'test-log.txt')
ALL = [f'C{i:02d}' for i in range(1, 21)]


def sh(cmd, cwd, env=None, timeout=3600):
    p = subprocess.run(cmd, cwd=cwd, env=env, capture_output=True, text=True, timeout=timeout)
    return p.returncode, p.stdout + p.stderr


def main():
    ap = argparse.ArgumentParser()
    ap.add_argument('dir')
    ap.add_argument('prop')
    ap.add_argument('--all', action='store_true')
    ap.add_argument('--tier', default='quick')
    ap.add_argument('--keep', default=None)
    ap.add_argument('--needs', default='')
    ap.add_argument('--history', default='')
    a = ap.parse_args()
    patch = os.path.abspath(os.path.join(a.dir, 'patch.diff'))
    demo = os.path.abspath(os.path.join(a.dir, 'demo.py'))
    base = tempfile.mkdtemp(prefix='verif-seed-')
    res = {'property': a.prop, 'dir': a.dir}
    try:
        clean = os.path.join(base, 'clean')
        mut = os.path.join(base, 'mut')
        shutil.copytree('/repo', clean, ignore=IGN)
        shutil.copytree('/repo', mut, ignore=IGN)
        rc, out = sh(['patch', '-p1', '-i', patch], mut)
        res['patch_applies'] = rc == 0
        if rc != 0:
            print(out)
            print(json.dumps(res))
            return 2
        env = dict(os.environ, PYTHONDONTWRITEBYTECODE='1')
        rc, out = sh(['/venv/bin/python', demo], clean, dict(env, PYTHONPATH=clean))
        res['demo_clean_rc'] = rc
        rc, out = sh(['/venv/bin/python', demo], mut, dict(env, PYTHONPATH=mut))
        res['demo_mutant_rc'] = rc
        res['demo_mutant_tail'] = out[-300:]
        rc, out = sh(['/venv/bin/python', '-m', 'pytest', '-q', '-p', 'no:cacheprovider', '--no-cov'], mut, env)
        res['tests_rc'] = rc
        res['tests_tail'] = out.strip().splitlines()[-1:] if out.strip() else []
        res['confirmed'] = res['demo_clean_rc'] == 0 and res['demo_mutant_rc'] != 0 and res['tests_rc'] == 0
        checks = ALL if a.all else [a.prop]
        res['checks'] = {}
        for pid in checks:
            t0 = time.time()
            rc, out = sh([os.path.join(VERIF, 'check'), pid, '--tier', a.tier], VERIF, dict(os.environ, VERIF_REPO=mut, VERIF_NO_EVIDENCE='1'))
            lines = out.splitlines()
            viol = [ln for ln in lines if ln.startswith('VIOLATION')]
            why = next((ln for ln in lines if ln.startswith('# ')), '')
            res['checks'][pid] = {'rc': rc, 'violations': len(viol), 'first': (why[:200] + ' | ' + viol[0][-90:]) if viol else out[-200:] if rc == 2 else '',
                                  'wall_s': round(time.time() - t0, 1)}
            print(pid, res['checks'][pid], flush=True)
        res['caught_by_own_check'] = res['checks'][a.prop]['rc'] == 1
        if a.keep:
            dst = os.path.join(VERIF, 'seeded', a.keep)
            os.makedirs(dst, exist_ok=True)
            shutil.copy(patch, os.path.join(dst, 'patch.diff'))
            shutil.copy(demo, os.path.join(dst, 'demo.py'))
            notes = os.path.join(a.dir, 'notes.md')
            meta = {'breaks_property': a.prop, 'origin': 'independent sub-agent given only the property text and a scratch worktree',
                    'needs_to_manifest': a.needs or (open(notes).read()[:1500] if os.path.exists(notes) else ''),
                    'confirmed': {'pinned_tests_pass_with_change': res['tests_rc'] == 0,
                                  'demo_exit_without_change': res['demo_clean_rc'],
                                  'demo_exit_with_change': res['demo_mutant_rc']},
                    'what_i_ran': 'selftest/try_seed.py on scratch copies of /repo (patch -p1; pytest; demo.py; ./check with '
                                  'VERIF_REPO=<patched copy>)',
                    'checks': res['checks'], 'tier': a.tier, 'history': a.history}
            with open(os.path.join(dst, 'meta.json'), 'w') as f:
                json.dump(meta, f, indent=1)
    finally:
        shutil.rmtree(base, ignore_errors=True)
        subprocess.run(['git', 'checkout', '--', 'evidence'], cwd=VERIF)
    print(json.dumps({k: v for k, v in res.items() if k != 'checks'}, indent=1))
    return 0


if __name__ == '__main__':
    sys.exit(main())
