#!/bin/sh
# Offline setup: parse every TLA+ module with SANY and byte-compile the harness. Nothing is fetched.
set -e
cd "$(dirname "$0")"
cd spec
for f in *.tla; do
  [ "$f" = "GaloisProofs.tla" ] && continue   # TLAPS module: checked by tlapm (thorough tier), not by SANY
  out=$(java -cp /opt/veriftools/tla/tla2tools.jar:/opt/veriftools/tla/CommunityModules-deps.jar tla2sany.SANY "$f" 2>&1) || { echo "$out"; exit 1; }
  if echo "$out" | grep -qi "error\|abort"; then echo "$out"; exit 1; fi
done
cd ..
python3 -m py_compile harness/*.py check
mkdir -p evidence/replays
echo "setup ok"
