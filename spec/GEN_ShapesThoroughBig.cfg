SPECIFICATION GSpec
CONSTANT Shapes <- ShapesThoroughBig
INVARIANT WellFormed
INVARIANT Emit
CHECK_DEADLOCK FALSE
