SPECIFICATION GSpec
CONSTANT Shapes <- ShapesQuick
INVARIANT WellFormed
INVARIANT Emit
CHECK_DEADLOCK FALSE
