SPECIFICATION VSpec
CONSTANT Kind = "triple"
CONSTANT MaxN = 3
CONSTANT MaxM = 2
CONSTANT MaxDepth = 2
VIEW VView
INVARIANT SeedsValid
INVARIANT DocImpliesTriple
INVARIANT Emit
CHECK_DEADLOCK FALSE
