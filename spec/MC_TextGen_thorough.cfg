SPECIFICATION GSpec
CONSTANT MaxN = 2
CONSTANT MaxM = 3
INVARIANT LabelsDistinct
INVARIANT Emit
CHECK_DEADLOCK FALSE
