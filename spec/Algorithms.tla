---------------------------- MODULE Algorithms ----------------------------
(***************************************************************************)
(* Implementation-shaped models of the three algorithms the library is     *)
(* built on, model checked against the declarative semantics of FCA.tla    *)
(* on every table of the configured shapes:                                *)
(*                                                                         *)
(*  "lindig"   algorithms/lindig.py: neighbors() with its `minimal` set,   *)
(*             lattice() with its heap keyed by the shortlex key and the   *)
(*             extent -> concept mapping (C03, C05, C06);                   *)
(*  "fcbo"     algorithms/fcbo.py fast_generate_from: explicit stack,      *)
(*             canonicity test, inherited failed-intent sets (C04);        *)
(*  "merge"    algorithms/common.py iterunion: heap merge of the           *)
(*             upper-(lower-)neighbour closures with `rank > seen` (C09).  *)
(*                                                                         *)
(* One step of the state machine is one iteration of the algorithm's outer *)
(* loop (one heap / stack pop).  These models are bound to the code only   *)
(* through the observable results (the trace specifications); they say WHY *)
(* the implementation's design yields the declarative values: heap order = *)
(* shortlex order because every upper cover has a larger key; `rank > seen`*)
(* is enough because index/dindex are linear extensions; the failed-intent *)
(* sets only ever prune non-canonical branches.                            *)
(***************************************************************************)
EXTENDS LatticeOf

CONSTANTS Shapes, Algo
VARIABLES T,        \* the table
          pc,       \* "run" | "done"
          heap,     \* lindig: set of pending extents; merge: set of <<rank, member>>; fcbo: unused
          known,    \* lindig: extents ever pushed (the mapping's keys)
          stack,    \* fcbo: sequence of <<extent, intent, first property index, failed-intent function>>
          out,      \* emitted sequence (extents for lindig / fcbo: <<extent, intent>>; member numbers for merge)
          links,    \* lindig: set of <<lower extent, upper extent>> recorded so far
          seen,     \* merge: largest rank emitted
          seeds, dir
avars == <<T, pc, heap, known, stack, out, links, seen, seeds, dir>>

Tables == UNION {{MkCtx(s[1], s[2], r) : r \in [1..s[1] -> SUBSET (1..s[2])]} : s \in Shapes}
MinBy(S, less(_, _)) == CHOOSE x \in S : \A y \in S : x = y \/ less(x, y)

(* ------------------------------ Lindig -------------------------------- *)
(* neighbors(objects): for add in atomic(~objects) ascending: closure of objects+add is a cover iff it
   contains no object outside objects+add that is still in `minimal`; otherwise add leaves `minimal` *)
RECURSIVE LNb(_, _, _, _)
LNb(K, A, todo, minimal) ==
    IF todo = {} THEN {}
    ELSE LET a == Min(todo)
             c == CloO(K, A \cup {a})
         IN  IF (c \ (A \cup {a})) \cap minimal # {}
             THEN LNb(K, A, todo \ {a}, minimal \ {a})
             ELSE {c} \cup LNb(K, A, todo \ {a}, minimal)
LindigNeighbors(K, A) == LNb(K, A, (1..K.n) \ A, (1..K.n) \ A)

LInit == /\ heap = {BottomExtent(T)} /\ known = {BottomExtent(T)}
         /\ out = <<>> /\ links = {} /\ stack = <<>> /\ seen = 0
LStep == /\ heap # {}
         /\ LET e  == MinBy(heap, ShortLess)
                nb == LindigNeighbors(T, e)
            IN  /\ heap' = (heap \ {e}) \cup (nb \ known)
                /\ known' = known \cup nb
                /\ links' = links \cup {<<e, u>> : u \in nb}
                /\ out' = Append(out, e)
         /\ UNCHANGED <<stack, seen>>

(* ------------------------------- FCbO --------------------------------- *)
(* a stack entry: [x |-> extent, i |-> intent, from |-> first candidate property (1-based), fail |-> function] *)
NoFail == [j \in 1..T.m |-> {}]
FInit == /\ stack = << [x |-> 1..T.n, i |-> Intent(T, 1..T.n), from |-> 1, fail |-> NoFail] >>
         /\ out = <<>> /\ heap = {} /\ known = {} /\ links = {} /\ seen = 0
(* children of a popped entry: iterate j from m down to `from` (reversed(j_atom[property_index:])), sharing and
   updating ONE copy of the failed-intent sets; children are pushed in that order, so the last pushed (smallest
   j) is popped first *)
RECURSIVE FChildren(_, _, _, _)
FChildren(ent, j, fail, acc) ==
    IF j < ent.from THEN [push |-> acc, fail |-> fail]
    ELSE IF j \in ent.i THEN FChildren(ent, j - 1, fail, acc)
    ELSE LET below == 1..(j - 1)
             x == fail[j] \cap below
         IN  IF ~ (x \subseteq ent.i) THEN FChildren(ent, j - 1, fail, acc)
             ELSE LET jx == ent.x \cap Col(T, j)
                      ji == Intent(T, jx)
                  IN  IF (ji \cap below) \subseteq ent.i
                      THEN FChildren(ent, j - 1, fail, Append(acc, [x |-> jx, i |-> ji, from |-> j + 1]))
                      ELSE FChildren(ent, j - 1, [fail EXCEPT ![j] = ji], acc)
FStep == /\ stack # <<>>
         /\ LET ent == stack[Len(stack)]
                rest == SubSeq(stack, 1, Len(stack) - 1)
            IN  /\ out' = Append(out, <<ent.x, ent.i>>)
                /\ IF ent.from = T.m + 1 \/ ent.x = {}
                   THEN stack' = rest
                   ELSE LET r == FChildren(ent, T.m, ent.fail, <<>>)
                        IN  (* all children of one node share the SAME final failed-intent sets (the list object) *)
                            stack' = rest \o [k \in 1..Len(r.push) |-> [x |-> r.push[k].x, i |-> r.push[k].i,
                                                                       from |-> r.push[k].from, fail |-> r.fail]]
         /\ UNCHANGED <<heap, known, links, seen>>

(* ------------------------------ heap merge ---------------------------- *)
L == LatticeOf(T)
RankOf(k) == IF dir = "up" THEN k ELSE L.dix[k]
NextOf(k) == IF dir = "up" THEN L.upS[k] ELSE L.loS[k]
(* tools.maximal with properly_subsumes / properly_implies: keep the seeds that are not properly above
   (below) another seed *)
Reduced(S) == IF dir = "up" THEN {s \in S : ~ \E t \in S : LLt(L, t, s)}
              ELSE {s \in S : ~ \E t \in S : LLt(L, s, t)}
MInit == /\ heap = {<<RankOf(k), k>> : k \in Reduced(ToSet(seeds))}
         /\ out = <<>> /\ seen = 0 /\ known = {} /\ links = {} /\ stack = <<>>
MStep == /\ heap # {}
         /\ LET e == CHOOSE x \in heap : \A y \in heap : x[1] <= y[1]
            IN  IF e[1] > seen
                THEN /\ seen' = e[1]
                     /\ out' = Append(out, e[2])
                     /\ heap' = (heap \ {e}) \cup {<<RankOf(k), k>> : k \in NextOf(e[2])}
                ELSE /\ heap' = heap \ {e}
                     /\ UNCHANGED <<seen, out>>
         /\ UNCHANGED <<known, links, stack>>

(* ----------------------------- the machine ---------------------------- *)
Init == /\ T \in Tables /\ pc = "run"
        /\ dir \in (IF Algo = "merge" THEN {"up", "down"} ELSE {"up"})
        /\ seeds \in (IF Algo = "merge"
                      THEN UNION {[1..k -> 1..LatticeOf(T).N] : k \in 0..2}
                      ELSE {<<>>})
        /\ CASE Algo = "lindig" -> LInit
             [] Algo = "fcbo"   -> FInit
             [] Algo = "merge"  -> MInit
Step == CASE Algo = "lindig" -> LStep
          [] Algo = "fcbo"   -> FStep
          [] Algo = "merge"  -> MStep
Finished == CASE Algo = "lindig" -> heap = {}
              [] Algo = "fcbo"   -> stack = <<>>
              [] Algo = "merge"  -> heap = {}
Next == \/ pc = "run" /\ ~ Finished /\ Step /\ UNCHANGED <<T, pc, seeds, dir>>
        \/ pc = "run" /\ Finished /\ pc' = "done" /\ UNCHANGED <<T, heap, known, stack, out, links, seen, seeds, dir>>
Spec == Init /\ [][Next]_avars

(* --------------------------- what is checked -------------------------- *)
(* Lindig: neighbours are exactly the upper covers; the pop order is the shortlex order without repeats; at the
   end every concept has been emitted and the recorded links are the covering relation *)
LindigNeighborsAreCovers == Algo = "lindig" => \A e \in Extents(T) : LindigNeighbors(T, e) = UpperCoverExtents(T, e)
LindigOrdered == Algo = "lindig" => \A i \in 1..(Len(out) - 1) : ShortLess(out[i], out[i + 1])
LindigFinal == (Algo = "lindig" /\ pc = "done") =>
                  /\ out = LatticeOf(T).ext
                  /\ links = {<<a, b>> \in Extents(T) \X Extents(T) : b \in UpperCoverExtents(T, a)}
(* FCbO: every emission is a formal concept, never repeated; at the end all concepts were emitted *)
FcboSound == Algo = "fcbo" => /\ \A i \in 1..Len(out) : IsConcept(T, out[i])
                              /\ \A i, j \in 1..Len(out) : i # j => out[i] # out[j]
FcboFinal == (Algo = "fcbo" /\ pc = "done") => ToSet(out) = Concepts(T)
(* merge: emissions strictly increase in rank; at the end exactly the union of the filters (ideals) *)
MergeOrdered == Algo = "merge" => \A i \in 1..(Len(out) - 1) : RankOf(out[i]) < RankOf(out[i + 1])
MergeFinal == (Algo = "merge" /\ pc = "done") =>
                 ToSet(out) = UNION {IF dir = "up" THEN UpsetOf(L, k) ELSE DownsetOf(L, k) : k \in ToSet(seeds)}
(* the seed reduction is only an optimisation: the unreduced heap gives the same set *)
Termination == <>(pc = "done")
=============================================================================
