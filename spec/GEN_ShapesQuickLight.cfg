SPECIFICATION GSpec
CONSTANT Shapes <- ShapesQuickLight
INVARIANT WellFormed
INVARIANT Emit
CHECK_DEADLOCK FALSE
