----------------------------- MODULE ContextSys -----------------------------
(***************************************************************************)
(* The context handle as a state machine.                                  *)
(*                                                                         *)
(*   K    : the context value held by the handle ([ok |-> FALSE] before    *)
(*          the constructor has run)                                       *)
(*   lat  : the lazily computed lattice: [ok |-> FALSE] until the first    *)
(*          call that needs it, then [ok |-> TRUE, v |-> LatticeOf(K)]     *)
(*          for good (the implementation caches it in the instance)        *)
(*   last : observation - the call just made and the response the          *)
(*          specification prescribes for it                                *)
(*                                                                         *)
(* One action per public call (in a sequential library the linearisation   *)
(* point is the call's return).  The response operators R_* are the        *)
(* oracle.  Lattice members are identified by their extent (extents are    *)
(* unique within a lattice); index/dindex are attributes.  Trace           *)
(* specifications (TraceCtx.tla) re-use these actions with the arguments   *)
(* bound from the log and compare last'.res with the recorded result.      *)
(***************************************************************************)
EXTENDS ContextOps

VARIABLES K, lat, last
ctxvars == <<K, lat, last>>

NoCtx == [ok |-> FALSE]
NoLat == [ok |-> FALSE]

(* ----------------------------- actions -------------------------------- *)
Init == K = NoCtx /\ lat = NoLat /\ last = [call |-> "none"]

New(k) == /\ IsCtx(k)
          /\ K' = [ok |-> TRUE, v |-> k]
          /\ lat' = NoLat
          /\ last' = [call |-> "new"]

(* calls that do not need the lattice *)
Pure(call, res) == /\ K.ok
                   /\ last' = [call |-> call, res |-> res]
                   /\ UNCHANGED <<K, lat>>
Intension(A) == A \subseteq 1..K.v.n /\ Pure("intension", R_Intension(K.v, A))
Extension(B) == B \subseteq 1..K.v.m /\ Pure("extension", R_Extension(K.v, B))
GetItemO(A)  == A # {} /\ A \subseteq 1..K.v.n /\ Pure("ctx.getitem", R_GetItemO(K.v, A))
GetItemP(B)  == B # {} /\ B \subseteq 1..K.v.m /\ Pure("ctx.getitem", R_GetItemP(K.v, B))
Neighbors(A) == A \subseteq 1..K.v.n /\ Pure("neighbors", R_Neighbors(K.v, A))
Generate(which) == Pure(which, R_Concepts(K.v))
Relations(unary) == Pure("relations", R_Relations(K.v, unary))
PrintRelations(unary, excl) == Pure("relations.str", R_Printed(K.v, unary, excl))

(* calls that materialise the lattice on first use and keep it *)
Lz == IF lat.ok THEN lat.v ELSE LatticeOf(K.v)
Lazy(call, R(_)) == /\ K.ok
                    /\ LET L == Lz
                       IN  /\ lat' = [ok |-> TRUE, v |-> L]
                           /\ last' = [call |-> call, res |-> R(L)]
                    /\ UNCHANGED K
IsMember(x) == x \in DOMAIN Lz.pos
LatList   == Lazy("lattice.list", LAMBDA L : R_List(L))
LatLinks  == Lazy("lattice.links", LAMBDA L : R_Links(L))
LatOrder  == Lazy("lattice.order", LAMBDA L : R_Order(L))
LatLabels == Lazy("lattice.labels", LAMBDA L : R_Labels(L))
LatGetO(A) == A # {} /\ A \subseteq 1..K.v.n /\ Lazy("lattice.getitem", LAMBDA L : R_GetItemO(K.v, A))
LatGetP(B) == B # {} /\ B \subseteq 1..K.v.m /\ Lazy("lattice.getitem", LAMBDA L : R_GetItemP(K.v, B))
LatCall(B) == B \subseteq 1..K.v.m /\ Lazy("lattice.call", LAMBDA L : R_GetItemP(K.v, B))
LatTop     == Lazy("lattice.getitem", LAMBDA L : R_List(L)[L.N])
LatAt(i)   == Lazy("lattice.getitem", LAMBDA L : IF i \in 0..(L.N - 1) THEN R_List(L)[i + 1] ELSE "IndexError")
Join(E)    == Lazy("join", LAMBDA L : R_Join(K.v, E))
Meet(E)    == Lazy("meet", LAMBDA L : R_Meet(K.v, E))
Pred(name) == name \in PredNames /\ Lazy("pred", LAMBDA L : R_Pred(K.v, L, name))
UpsetUnion(E)   == Lazy("upset_union", LAMBDA L : R_UpsetUnion(L, E))
DownsetUnion(E) == Lazy("downset_union", LAMBDA L : R_DownsetUnion(L, E))
Upset(x)   == Lazy("upset", LAMBDA L : R_UpsetUnion(L, {x}))
UpsetGeneralization(E) == Lazy("upset_generalization", LAMBDA L : R_UpsetGeneralization(L, E))
Downset(x) == Lazy("downset", LAMBDA L : R_DownsetUnion(L, {x}))
Attributes(x) == Lazy("attributes", LAMBDA L : R_Attributes(K.v, x))
Minimal(x)    == Lazy("minimal", LAMBDA L : R_Minimal(K.v, x))
Graphviz      == Lazy("graphviz", LAMBDA L : R_Drawing(L))
(* any other read-only call that needs the lattice *)
Touch(call)   == Lazy(call, LAMBDA L : L.N)

(* dropping the cache: copy() / pickling the context give a handle without it *)
Forget == K.ok /\ lat' = NoLat /\ last' = [call |-> "copy"] /\ UNCHANGED K

(* the key invariant of the lazy cache (C11: a stored lattice is            *)
(* indistinguishable from a recomputed one)                                 *)
CacheCoherent == lat.ok => (K.ok /\ lat.v = LatticeOf(K.v))
=============================================================================
