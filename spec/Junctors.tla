----------------------------- MODULE Junctors -----------------------------
(***************************************************************************)
(* Logical relations between the properties (columns) of a context (C16).  *)
(* Occ(K, p, q) is the set of truth-value combinations that occur among    *)
(* the objects; the kind of a pair of contingent properties is determined  *)
(* by Occ alone.                                                           *)
(***************************************************************************)
EXTENDS FCA

UnaryKind(K, p) == LET c == Col(K, p)
                   IN  IF c = 1..K.n THEN "tautology"
                       ELSE IF c = {} THEN "contradiction" ELSE "contingency"
Contingent(K) == {p \in 1..K.m : UnaryKind(K, p) = "contingency"}

Comb(K, i, p, q) == IF p \in K.rows[i]
                    THEN (IF q \in K.rows[i] THEN "TT" ELSE "TF")
                    ELSE (IF q \in K.rows[i] THEN "FT" ELSE "FF")
Occ(K, p, q) == {Comb(K, i, p, q) : i \in 1..K.n}

(* the seven patterns of the documented table *)
Pattern == [orthogonal   |-> {"TT", "TF", "FT", "FF"},
            subcontrary  |-> {"TT", "TF", "FT"},
            implication  |-> {"TT", "FT", "FF"},
            replication  |-> {"TT", "TF", "FF"},
            equivalent   |-> {"TT", "FF"},
            incompatible |-> {"TF", "FT", "FF"},
            complement   |-> {"TF", "FT"}]
PatternKinds == DOMAIN Pattern
RawKind(occ) == CHOOSE k \in PatternKinds : Pattern[k] = occ

(* the same thing said the way the property statement says it *)
RawKindByCases(occ) ==
    IF "TT" \notin occ THEN (IF "FF" \in occ THEN "incompatible" ELSE "complement")
    ELSE IF "TF" \notin occ /\ "FT" \notin occ THEN "equivalent"
    ELSE IF "TF" \notin occ THEN "implication"
    ELSE IF "FT" \notin occ THEN "replication"
    ELSE IF "FF" \in occ THEN "orthogonal" ELSE "subcontrary"

KindRank == [equivalent |-> 1, complement |-> 2, incompatible |-> 3,
             implication |-> 4, subcontrary |-> 6, orthogonal |-> 7]
UnaryRank == [contradiction |-> 0, tautology |-> 1, contingency |-> 2]   \* documented -2, -1, 0

(* an entry is <<kind, left, right>>; right = 0 for unary entries;         *)
(* replication is reported as an implication with the sides swapped        *)
BinEntry(K, p, q) == LET k == RawKind(Occ(K, p, q))
                     IN  IF k = "replication" THEN <<"implication", q, p>> ELSE <<k, p, q>>

RECURSIVE PairSeq(_, _)      \* all <<p, q>> with p < q from an ascending sequence, lexicographic
PairSeq(s, i) == IF i >= Len(s) THEN <<>>
                 ELSE [j \in 1..(Len(s) - i) |-> <<s[i], s[i + j]>>] \o PairSeq(s, i + 1)

BinaryBase(K) == LET cs == SortedSeq(Contingent(K))
                     ps == PairSeq(cs, 1)
                 IN  [x \in 1..Len(ps) |-> BinEntry(K, ps[x][1], ps[x][2])]
UnaryBase(K)  == [p \in 1..K.m |-> <<UnaryKind(K, p), p, 0>>]

RECURSIVE ConcatRanks(_, _, _, _)
ConcatRanks(base, rankOf(_), r, maxr) ==
    IF r > maxr THEN <<>>
    ELSE SelectSeq(base, LAMBDA e : rankOf(e) = r) \o ConcatRanks(base, rankOf, r + 1, maxr)

(* stable sort by documented rank: unary kinds first, then binary by rank *)
RelationsSeq(K, unary) ==
    LET bin == ConcatRanks(BinaryBase(K), LAMBDA e : KindRank[e[1]], 1, 7)
        un  == ConcatRanks(UnaryBase(K), LAMBDA e : UnaryRank[e[1]], 0, 2)
    IN  IF unary THEN un \o bin ELSE bin

(* what printing must list: every entry, or every non-orthogonal entry *)
PrintedSeq(K, unary, exclOrth) ==
    LET all == RelationsSeq(K, unary)
    IN  IF exclOrth THEN SelectSeq(all, LAMBDA e : e[1] # "orthogonal") ELSE all
=============================================================================
