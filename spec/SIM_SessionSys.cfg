SPECIFICATION SSpec
CONSTANT H = 3
CONSTANT NTables = 3
CONSTANT EmitDepth = 10
CONSTANT EmitOneIn = 1
INVARIANT STypeOK
INVARIANT EmitSession
CHECK_DEADLOCK FALSE
