----------------------------- MODULE Documents -----------------------------
(***************************************************************************)
(* The structured serialisation of a context and its lattice (C11).        *)
(*                                                                         *)
(* todict() is an index-based encoding: 'context' lists per object the     *)
(* 0-based positions of its properties in ascending order; 'lattice' lists *)
(* per member, in iteration (shortlex) order, the 4-tuple                  *)
(*   << extent positions, intent positions, upper neighbour indexes,       *)
(*      lower neighbour indexes >>                                         *)
(* all 0-based, neighbours in shortlex resp. longlex order.                *)
(* The lattice is included if asked for ("F": ignore_lattice=False), left  *)
(* out if not ("T"), and with "N" (ignore_lattice=None) included exactly   *)
(* when it has already been computed - the lazy flag of the handle.        *)
(***************************************************************************)
EXTENDS LatticeOf

Zero(s) == [i \in 1..Len(s) |-> s[i] - 1]
SortedSeq0(s) == SortedSeq(ToSet(s))      \* a stored index tuple in ascending order
CtxRows0(K) == [i \in 1..K.n |-> Zero(SortedSeq(K.rows[i]))]
LatList0(L) == [x \in 1..L.N |-> << Zero(SortedSeq(L.ext[x])), Zero(SortedSeq(L.int[x])),
                                     Zero(L.up[x]), Zero(L.lo[x]) >>]

IncludesLattice(ign, cached) == ign = "F" \/ (ign = "N" /\ cached)
(* computing the export with ignore_lattice=False materialises the lattice *)
CachedAfterToDict(ign, cached) == cached \/ ign = "F"
(* loading keeps a stored lattice unless told to ignore it *)
CachedAfterLoad(stored, ignore) == stored /\ ~ ignore

(* ---- raw=True: any permutation of the stored sequences loads the same ---- *)
(* sigma : new list position -> old list position (1-based)                  *)
InvPerm(sigma) == [o \in 1..Len(sigma) |-> CHOOSE x \in 1..Len(sigma) : sigma[x] = o]
PermuteList(lst, sigma) ==
    LET inv == InvPerm(sigma)
        re(s) == [i \in 1..Len(s) |-> inv[s[i] + 1] - 1]
    IN  [x \in 1..Len(lst) |-> << lst[sigma[x]][1], lst[sigma[x]][2], re(lst[sigma[x]][3]), re(lst[sigma[x]][4]) >>]
(* what a raw load must reconstruct: order the entries by shortlex of their extents,
   renumber, order upper links by shortlex and lower links by longlex of their targets *)
Canon(lst) ==
    LET N == Len(lst)
        E(x) == {p + 1 : p \in ToSet(lst[x][1])}
        ord == SetToSortSeq(1..N, LAMBDA a, b : ShortLess(E(a), E(b)))       \* new -> old
        inv == [o \in 1..N |-> CHOOSE x \in 1..N : ord[x] = o]
        upS(x) == {inv[u + 1] : u \in ToSet(lst[ord[x]][3])}
        loS(x) == {inv[u + 1] : u \in ToSet(lst[ord[x]][4])}
        EN(x) == E(ord[x])
    IN  [x \in 1..N |-> << SortedSeq0(lst[ord[x]][1]), SortedSeq0(lst[ord[x]][2]),
                           Zero(SortedSeq(upS(x))),
                           Zero(SetToSortSeq(loS(x), LAMBDA a, b : LongLess(EN(a), EN(b)))) >>]
=============================================================================
