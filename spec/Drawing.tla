------------------------------ MODULE Drawing ------------------------------
(***************************************************************************)
(* The labelled Hasse diagram a Graphviz export must draw (C20): one node  *)
(* per member (named by index = member number - 1), one edge per covering  *)
(* pair from the upper member to the lower one, an object label exactly on *)
(* the members with a non-empty object label, likewise for properties.     *)
(***************************************************************************)
EXTENDS LatticeOf

Nodes(L) == 0..(L.N - 1)
EdgeSet(L) == {<<a - 1, b - 1>> : <<a, b>> \in {<<a, b>> \in (1..L.N) \X (1..L.N) : b \in L.loS[a]}}
ObjLabelled(L)  == {k - 1 : k \in {k \in 1..L.N : L.olab[k] # <<>>}}
PropLabelled(L) == {k - 1 : k \in {k \in 1..L.N : L.plab[k] # <<>>}}
=============================================================================
