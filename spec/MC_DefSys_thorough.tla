-------------------------- MODULE MC_DefSys_thorough --------------------------
EXTENDS DefSys
(* "s" is usable on both axes: a Definition does not require the axes to be disjoint *)
TONames == {"a", "b", "s"}
TPNames == {"x", "y", "s"}
TOthers == << Mk(<<"a">>, <<"x">>, {<<"a", "x">>}),
              Mk(<<"b", "a">>, <<"y", "x">>, {<<"b", "y">>}),
              Mk(<<"a", "b">>, <<"x", "y">>, {<<"a", "x">>, <<"b", "x">>, <<"b", "y">>}),
              Mk(<<"b">>, <<"y">>, {}),
              Empty,
              Mk(<<"a", "b">>, <<"x", "y">>, (({"a", "b"}) \X ({"x", "y"}))) >>
=============================================================================
