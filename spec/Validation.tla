----------------------------- MODULE Validation -----------------------------
(***************************************************************************)
(* Input validation of Context(objects, properties, bools) and of          *)
(* Context.fromdict(d, ignore_lattice, require_lattice, raw)  (C19).       *)
(*                                                                         *)
(* Inputs are modelled as POSSIBLY ILL-FORMED values:                      *)
(*   a name is a tagged atom  [t |-> "s", v |-> "a"]  (string),            *)
(*                            [t |-> "i", v |-> 7]    (integer),           *)
(*                            [t |-> "n", v |-> 0]    (None);              *)
(*   a triple  is [objs, props : Seq(atom), rows : Seq(Seq(0..1))]  with   *)
(*             rows of any number and length;                              *)
(*   a document is [has : [objects, properties, context : BOOLEAN],        *)
(*             objs, props : Seq(atom), ctx : Seq(Seq(Int)) (0-based true  *)
(*             column indexes, any values), lat : "absent"|"present"|      *)
(*             "empty", ignore, require, raw : BOOLEAN].                   *)
(* TripleOK / DocOK are the predicates of the property statement; the      *)
(* outcome of the call is "ok" iff the predicate holds, else ValueError.   *)
(* The corruption operators produce every single corruption of an input.   *)
(***************************************************************************)
EXTENDS Naturals, Integers, FiniteSets, Sequences, SequencesExt, TLC

S(x) == [t |-> "s", v |-> x]
I(x) == [t |-> "i", v |-> x]
N    == [t |-> "n", v |-> 0]

Rg(s) == {s[i] : i \in 1..Len(s)}
NoDups(s) == \A i, j \in 1..Len(s) : i # j => s[i] # s[j]
AllStr(s) == \A i \in 1..Len(s) : s[i].t = "s"

NamesOK(objs, props) == /\ Len(objs) > 0 /\ Len(props) > 0
                        /\ NoDups(objs) /\ NoDups(props)
                        /\ Rg(objs) \cap Rg(props) = {}

TripleOK(t) == /\ NamesOK(t.objs, t.props)
               /\ Len(t.rows) = Len(t.objs)
               /\ \A i \in 1..Len(t.rows) : Len(t.rows[i]) = Len(t.props)
TripleOutcome(t) == IF TripleOK(t) THEN "ok" ELSE "ValueError"
(* what an accepted triple must read back as: cells by truthiness *)
TripleCells(t) == {<<i, j>> \in (1..Len(t.rows)) \X (1..Len(t.props)) : t.rows[i][j] = 1}

RowOK(r, m) == NoDups(r) /\ \A i \in 1..Len(r) : r[i] \in 0..(m - 1)
DocOK(d) == /\ d.has.objects /\ d.has.properties /\ d.has.context
            /\ AllStr(d.objs) /\ AllStr(d.props)
            /\ Len(d.ctx) = Len(d.objs)
            /\ (d.require => d.lat # "absent")
            /\ d.lat # "empty"
            /\ \A i \in 1..Len(d.ctx) : RowOK(d.ctx[i], Len(d.props))
            /\ NamesOK(d.objs, d.props)
DocOutcome(d) == IF DocOK(d) THEN "ok" ELSE "ValueError"
DocCells(d) == {<<i, j>> \in (1..Len(d.ctx)) \X (1..Len(d.props)) : (j - 1) \in Rg(d.ctx[i])}
(* the lazily computed lattice is present after loading iff one was stored and not ignored *)
DocLoadsLattice(d) == d.lat = "present" /\ ~ d.ignore

(* --------------------------- corruptions ------------------------------ *)
DelAt(s, i) == SubSeq(s, 1, i - 1) \o SubSeq(s, i + 1, Len(s))
PutAt(s, i, x) == [s EXCEPT ![i] = x]

NameCorruptions(objs, props) ==
    (* pairs <<objs', props'>> *)
       {<<DelAt(objs, i), props>> : i \in 1..Len(objs)}
  \cup {<<objs, DelAt(props, j)>> : j \in 1..Len(props)}
  \cup {<<PutAt(objs, k, objs[i]), props>> : i \in 1..Len(objs), k \in 1..Len(objs)}
  \cup {<<objs, PutAt(props, k, props[j])>> : j \in 1..Len(props), k \in 1..Len(props)}
  \cup {<<objs, PutAt(props, j, objs[i])>> : i \in 1..Len(objs), j \in 1..Len(props)}
  \cup {<<PutAt(objs, i, props[j]), props>> : i \in 1..Len(objs), j \in 1..Len(props)}
  \cup {<<Append(objs, S("new")), props>>, <<objs, Append(props, S("new"))>>}
  \cup {<<Append(objs, objs[i]), props>> : i \in 1..Len(objs)}
  \cup {<<objs, Append(props, objs[i])>> : i \in 1..Len(objs)}

TripleCorruptions(t) ==
       {[t EXCEPT !.objs = c[1], !.props = c[2]] : c \in NameCorruptions(t.objs, t.props)}
  \cup {[t EXCEPT !.rows = DelAt(@, i)] : i \in 1..Len(t.rows)}
  \cup {[t EXCEPT !.rows = Append(@, t.rows[i])] : i \in 1..Len(t.rows)}
  \cup {[t EXCEPT !.rows[i] = Append(@, 1)] : i \in 1..Len(t.rows)}
  \cup {[t EXCEPT !.rows[i] = DelAt(@, Len(@))] : i \in {i \in 1..Len(t.rows) : Len(t.rows[i]) > 0}}
  \cup {[t EXCEPT !.rows = [i \in 1..Len(t.rows) |-> Append(t.rows[i], 0)]]}
  (* consistent removals / additions: the result may be well formed again *)
  \cup {[t EXCEPT !.objs = DelAt(@, i), !.rows = DelAt(@, i)] : i \in 1..Len(t.objs) \cap 1..Len(t.rows)}
  \cup {[objs |-> Append(t.objs, S("new")), props |-> t.props, rows |-> Append(t.rows, t.rows[i])] : i \in 1..Len(t.rows)}

DocCorruptions(d) ==
       {[d EXCEPT !.objs = c[1], !.props = c[2]] : c \in NameCorruptions(d.objs, d.props)}
  \cup {[d EXCEPT !.has.objects = FALSE], [d EXCEPT !.has.properties = FALSE], [d EXCEPT !.has.context = FALSE]}
  \cup {[d EXCEPT !.objs[i] = x] : i \in 1..Len(d.objs), x \in {I(1), N}}
  \cup {[d EXCEPT !.props[j] = x] : j \in 1..Len(d.props), x \in {I(0), N}}
  \cup {[d EXCEPT !.ctx = DelAt(@, i)] : i \in 1..Len(d.ctx)}
  \cup {[d EXCEPT !.ctx = Append(@, d.ctx[i])] : i \in 1..Len(d.ctx)}
  (* a bad or repeated index at the front, strictly inside or at the end of a row *)
  \cup UNION {{[d EXCEPT !.ctx[i] = InsertAt(@, at, x)] : at \in 1..(Len(d.ctx[i]) + 1),
                                                          x \in {Len(d.props), 0 - 1, 0, Len(d.props) - 1}}
                 : i \in 1..Len(d.ctx)}
  \cup {[d EXCEPT !.ctx[i] = DelAt(@, 1)] : i \in {i \in 1..Len(d.ctx) : Len(d.ctx[i]) > 0}}
  \cup {[d EXCEPT !.lat = x] : x \in {"absent", "present", "empty"}}
  \cup {[d EXCEPT !.ignore = ~ @], [d EXCEPT !.require = ~ @], [d EXCEPT !.raw = ~ @]}
  \cup {[d EXCEPT !.objs = DelAt(@, i), !.ctx = DelAt(@, i)] : i \in 1..Len(d.objs) \cap 1..Len(d.ctx)}

(* ------------------------------ seeds --------------------------------- *)
ONm == <<S("a"), S("b"), S("c")>>
PNm == <<S("x"), S("y"), S("z")>>
SeedTriples(maxn, maxm) ==
    UNION {UNION {{[objs |-> SubSeq(ONm, 1, n), props |-> SubSeq(PNm, 1, m), rows |-> r] :
                      r \in [1..n -> [1..m -> 0..1]]} : m \in 1..maxm} : n \in 1..maxn}
IdxRows(m) == {SetToSortSeq(B, <) : B \in SUBSET (0..(m - 1))}
SeedDocs(maxn, maxm) ==
    UNION {UNION {{[has |-> [objects |-> TRUE, properties |-> TRUE, context |-> TRUE],
                    objs |-> SubSeq(ONm, 1, n), props |-> SubSeq(PNm, 1, m), ctx |-> r,
                    lat |-> lt, ignore |-> FALSE, require |-> FALSE, raw |-> FALSE] :
                      r \in [1..n -> IdxRows(m)], lt \in {"absent", "present"}} : m \in 1..maxm} : n \in 1..maxn}
=============================================================================
