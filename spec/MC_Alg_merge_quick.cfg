SPECIFICATION Spec
CONSTANT Algo = "merge"
CONSTANT Shapes <- ShapesMerge
INVARIANT LindigNeighborsAreCovers
INVARIANT LindigOrdered
INVARIANT LindigFinal
INVARIANT FcboSound
INVARIANT FcboFinal
INVARIANT MergeOrdered
INVARIANT MergeFinal
CHECK_DEADLOCK FALSE
