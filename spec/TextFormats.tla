---------------------------- MODULE TextFormats ----------------------------
(***************************************************************************)
(* Writers for the loadable text formats, written from the format          *)
(* descriptions alone (C12, spec -> code).  A label is a sequence of       *)
(* one-character strings so that the csv quoting rule can be stated; a     *)
(* text is a sequence of lines.                                            *)
(*                                                                         *)
(*  table : header line  <blank object column> | p1 | p2 | ... |           *)
(*          one line per object  name | c1 | c2 | ... |   with c = X or    *)
(*          blank; cells may be padded on either side, lines indented.     *)
(*  cxt   : B, name line, #objects, #properties, blank, the object names,  *)
(*          the property names, one line of X / . per object.              *)
(*  csv   : header row (object column header, property names), one row per *)
(*          object (name, then X / empty or 1 / 0); a field containing the *)
(*          delimiter, a quote or a line break is enclosed in quotes with  *)
(*          inner quotes doubled; rows end with CR LF.                     *)
(***************************************************************************)
EXTENDS Naturals, Sequences, TLC

RECURSIVE Cat(_)
Cat(s) == IF s = <<>> THEN "" ELSE Head(s) \o Cat(Tail(s))
RECURSIVE Spaces(_)
Spaces(k) == IF k = 0 THEN "" ELSE " " \o Spaces(k - 1)
Max2(a, b) == IF a >= b THEN a ELSE b
RECURSIVE MaxLen(_)
MaxLen(labels) == IF labels = <<>> THEN 0 ELSE Max2(Len(Head(labels)), MaxLen(Tail(labels)))

(* pad a text of known length to width w: "left" = text first, "right" = text last, "centre" *)
Pad(text, len, w, how) ==
    LET gap == IF w > len THEN w - len ELSE 0
    IN  CASE how = "left"   -> text \o Spaces(gap)
          [] how = "right"  -> Spaces(gap) \o text
          [] how = "centre" -> Spaces(gap \div 2) \o text \o Spaces(gap - gap \div 2)

(* lay == [pad |-> "left"|"right"|"centre", indent |-> Nat, extra |-> Nat] *)
TableLines(objs, props, rows, lay) ==
    LET wo == MaxLen(objs) + lay.extra
        wp(j) == Max2(Len(props[j]), 1) + lay.extra
        line(first, flen, cell(_), clen(_)) ==
            Spaces(lay.indent) \o Pad(first, flen, wo, lay.pad) \o "|"
            \o Cat([j \in 1..Len(props) |-> Pad(cell(j), clen(j), wp(j), lay.pad) \o "|"])
    IN  <<line("", 0, LAMBDA j : Cat(props[j]), LAMBDA j : Len(props[j]))>>
        \o [i \in 1..Len(objs) |->
              line(Cat(objs[i]), Len(objs[i]),
                   LAMBDA j : IF j \in rows[i] THEN "X" ELSE "",
                   LAMBDA j : IF j \in rows[i] THEN 1 ELSE 0)]

CxtLines(objs, props, rows) ==
    <<"B", "", ToString(Len(objs)), ToString(Len(props)), "">>
    \o [i \in 1..Len(objs) |-> Cat(objs[i])]
    \o [j \in 1..Len(props) |-> Cat(props[j])]
    \o [i \in 1..Len(objs) |-> Cat([j \in 1..Len(props) |-> IF j \in rows[i] THEN "X" ELSE "."])]

NeedsQuotes(chars, delim) == \E k \in 1..Len(chars) : chars[k] \in {delim, "\"", "\n", "\r"}
CsvField(chars, delim) ==
    IF NeedsQuotes(chars, delim)
    THEN "\"" \o Cat([k \in 1..Len(chars) |-> IF chars[k] = "\"" THEN "\"\"" ELSE chars[k]]) \o "\""
    ELSE Cat(chars)
RECURSIVE JoinWith(_, _)
JoinWith(s, d) == IF s = <<>> THEN "" ELSE IF Len(s) = 1 THEN s[1] ELSE s[1] \o d \o JoinWith(Tail(s), d)
(* lines WITHOUT their CR LF terminators *)
CsvLines(objs, props, rows, asint, delim, header) ==
    LET T == IF asint THEN "1" ELSE "X"
        F == IF asint THEN "0" ELSE ""
    IN  <<JoinWith(<<CsvField(header, delim)>> \o [j \in 1..Len(props) |-> CsvField(props[j], delim)], delim)>>
        \o [i \in 1..Len(objs) |->
              JoinWith(<<CsvField(objs[i], delim)>> \o [j \in 1..Len(props) |-> IF j \in rows[i] THEN T ELSE F], delim)]
=============================================================================
