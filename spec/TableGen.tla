------------------------------ MODULE TableGen ------------------------------
(***************************************************************************)
(* Generator machine for the exhaustive part of the context corpus         *)
(* (spec -> code): the state is one boolean table, a step toggles one      *)
(* cell, so the reachable states are ALL tables of the configured shapes   *)
(* (the same machine Theorems.tla checks its invariants on).  Every        *)
(* distinct state is printed once as JSON; the harness builds each table   *)
(* with the public constructor and records the calls of the property under *)
(* check on it.  The number of tables the harness uses must equal the      *)
(* number of distinct states TLC reports.                                  *)
(***************************************************************************)
EXTENDS FCA, Json

CONSTANT Shapes
VARIABLE T

Small == {<<1, 1>>, <<1, 2>>, <<2, 1>>, <<2, 2>>, <<1, 3>>, <<3, 1>>, <<2, 3>>, <<3, 2>>, <<3, 3>>}
Mid   == {<<3, 4>>, <<4, 3>>, <<2, 4>>, <<4, 2>>, <<1, 4>>, <<4, 1>>}
Big   == {<<4, 4>>, <<2, 6>>, <<6, 2>>, <<3, 5>>, <<5, 3>>, <<2, 5>>, <<5, 2>>}
ShapesQuick        == Small
ShapesQuickLight   == Small \cup {<<3, 4>>, <<4, 3>>}
ShapesQuickC16     == Small \cup {<<3, 4>>, <<4, 3>>, <<4, 2>>, <<2, 4>>}
ShapesThoroughMid  == Small \cup Mid
ShapesThoroughMid4 == Small \cup Mid \cup {<<4, 4>>}
ShapesThoroughBig  == Small \cup Mid \cup Big

Blank(n, m) == MkCtx(n, m, [i \in 1..n |-> {}])
GInit == \E s \in Shapes : T = Blank(s[1], s[2])
GNext == \E i \in 1..T.n, j \in 1..T.m :
            T' = [T EXCEPT !.rows[i] = IF j \in @ THEN @ \ {j} ELSE @ \cup {j}]
GSpec == GInit /\ [][GNext]_T

WellFormed == IsCtx(T)
Emit == PrintT(<<"TABLE", ToJson([n |-> T.n, m |-> T.m, rows |-> [i \in 1..T.n |-> SortedSeq(T.rows[i])]])>>)
=============================================================================
