----------------------------- MODULE SessionSys -----------------------------
(***************************************************************************)
(* A user session: several live context handles over the SAME label        *)
(* universe, created, queried, copied, pickled, exported/re-loaded and     *)
(* dropped in any order.  ContextSys.tla is one handle with the full       *)
(* response oracle; this module is the part of the state that only exists  *)
(* between handles and between calls:                                      *)
(*                                                                         *)
(*   hs[h] : "free", or a live handle with the number t of its table and   *)
(*           lat = "the lazy lattice is stored in the object"              *)
(*                                                                         *)
(* Actions (one per public call or group of calls of one family):          *)
(*   SNew(h, t)         the constructor                                    *)
(*   SQuery(h, fam)     the calls of one property family (drive() of the   *)
(*                      recorder); lattice families leave the lattice      *)
(*                      cached, the others do not touch the flag           *)
(*   SFail(h, lazy)     calls that raise (unknown label, wrong type ...):  *)
(*                      no effect, except that a failing call made         *)
(*                      THROUGH context.lattice has computed the lattice   *)
(*   SDerive(h, g, how) a new handle g from h: copy(), pickle round trip,  *)
(*                      Context built from definition(), todict/fromdict    *)
(*                      with ignore_lattice=None ("dict": the lattice      *)
(*                      travels iff it is cached) or with the default      *)
(*                      ignore_lattice=False ("force": computing the       *)
(*                      export caches it in h as well); "json" / "literal"  *)
(*                      / "table" / "cxt" / "csv": written and re-read in  *)
(*                      that format.  C04 counts as a                      *)
(*                      lattice family: its calls compare the generators   *)
(*                      with context.lattice                               *)
(*   SDrop(h)           the last reference goes away                       *)
(*   SAbort(h)          lattice.graphviz() aborted half-way by an exception *)
(*                      raised in the caller's own label callback and      *)
(*                      caught by the caller: like a failing lazy call it  *)
(*                      leaves the lattice cached and nothing else         *)
(*   SOrphan(h)         the caller keeps only concept objects of h (they   *)
(*                      exist once the lattice has been computed) and      *)
(*                      drops the context and the lattice; the garbage     *)
(*                      collector runs.  The handle becomes an "orphan":   *)
(*                      member-level families stay queryable on it and     *)
(*                      answer for the same table; context-level calls     *)
(*                      and derivations are gone                           *)
(*                                                                         *)
(* The responses of the queries are not modelled here: when a behaviour is *)
(* replayed on real objects every call is recorded as a TraceCtx event and *)
(* judged against ContextOps/LatticeOf for the table the handle holds.     *)
(* What this module adds is (i) TLC as the generator of call orders across *)
(* handles - every seeded change missed in round 1c hid in an order of     *)
(* calls nobody had written down - and (ii) the flag discipline, which     *)
(* TraceSession.tla compares with the flag observed through                *)
(* todict(ignore_lattice=None) after every step.                           *)
(***************************************************************************)
EXTENDS Naturals, Sequences, FiniteSets, TLC, Json

CONSTANTS H,           \* number of handle slots
          NTables,     \* tables 1..NTables share one shape and one set of labels
          EmitDepth, EmitOneIn
VARIABLES hs, slast, shist
svars == <<hs, slast, shist>>

PureFams == {"C01", "C02", "C16"}
LazyFams == {"C02L", "C03", "C04", "C05", "C06", "C07", "C08", "C09", "C10", "C18", "C20"}
Fams == PureFams \cup LazyFams
(* what can still be asked when only concept objects are left *)
MemberFams == {"C05", "C06", "C07", "C08", "C09", "C10", "C18"}
Hows == {"copy", "pickle", "definition", "dict", "force", "json", "literal", "table", "cxt", "csv"}

Free == [st |-> "free"]
Handle(t, lat) == [st |-> "live", t |-> t, lat |-> lat]
Orphaned(t) == [st |-> "orphan", t |-> t]
Live(S, h) == S[h].st = "live"
Orphan(S, h) == S[h].st = "orphan"

(* the successor as a function of the state and the action record: shared with TraceSession *)
Enabled(S, a) ==
    CASE a.a = "new"    -> S[a.h] = Free /\ a.t \in 1..NTables
      [] a.a = "query"  -> \/ Live(S, a.h) /\ a.fam \in Fams
                           \/ Orphan(S, a.h) /\ a.fam \in MemberFams
      [] a.a = "fail"   -> Live(S, a.h)
      [] a.a = "derive" -> Live(S, a.h) /\ S[a.g] = Free /\ a.how \in Hows
      [] a.a = "drop"   -> Live(S, a.h) \/ Orphan(S, a.h)
      [] a.a = "abort"  -> Live(S, a.h)
      [] a.a = "orphan" -> Live(S, a.h) /\ S[a.h].lat
      [] OTHER -> FALSE
Step(S, a) ==
    CASE a.a = "new"    -> [S EXCEPT ![a.h] = Handle(a.t, FALSE)]
      [] a.a = "query"  -> IF Orphan(S, a.h) THEN S ELSE [S EXCEPT ![a.h].lat = @ \/ (a.fam \in LazyFams)]
      [] a.a = "fail"   -> [S EXCEPT ![a.h].lat = @ \/ a.lazy]
      [] a.a = "derive" ->
            LET src == S[a.h]
                travels == CASE a.how \in {"dict", "json", "literal"} -> src.lat
                                  \* todict / tojson with ignore_lattice=None, the python-literal text: the
                                  \* lattice is included iff it is cached
                             [] a.how = "force" -> TRUE          \* todict() - the default is ignore_lattice=False
                             [] OTHER -> FALSE                   \* copy / pickle / definition / table, cxt, csv text
            IN  [S EXCEPT ![a.g] = Handle(src.t, travels),
                          ![a.h].lat = @ \/ (a.how = "force")]
      [] a.a = "drop"   -> [S EXCEPT ![a.h] = Free]
      [] a.a = "abort"  -> [S EXCEPT ![a.h].lat = TRUE]
      [] a.a = "orphan" -> [S EXCEPT ![a.h] = Orphaned(S[a.h].t)]

Actions(S) ==
       {[a |-> "new", h |-> h, t |-> t] : h \in 1..H, t \in 1..NTables}
  \cup {[a |-> "query", h |-> h, fam |-> f] : h \in 1..H, f \in Fams}
  \cup {[a |-> "fail", h |-> h, lazy |-> z] : h \in 1..H, z \in BOOLEAN}
  \cup {[a |-> "derive", h |-> h, g |-> g, how |-> w] : h \in 1..H, g \in 1..H, w \in Hows}
  \cup {[a |-> "drop", h |-> h] : h \in 1..H}
  \cup {[a |-> "abort", h |-> h] : h \in 1..H}
  \cup {[a |-> "orphan", h |-> h] : h \in 1..H}

SInit == hs = [h \in 1..H |-> Free] /\ slast = [a |-> "none"] /\ shist = <<>>
SNext == \E a \in Actions(hs) : /\ Enabled(hs, a)
                                /\ hs' = Step(hs, a)
                                /\ slast' = a
                                /\ shist' = Append(shist, a)
SSpec == SInit /\ [][SNext]_svars
SView == <<hs, slast>>

(* ------------------------------ checked -------------------------------- *)
STypeOK == \A h \in 1..H : \/ hs[h] = Free
                            \/ (hs[h].st = "live" /\ hs[h].t \in 1..NTables /\ hs[h].lat \in BOOLEAN)
                            \/ (hs[h].st = "orphan" /\ hs[h].t \in 1..NTables)
(* a call on one handle never changes another handle (except that `force` caches in the source) *)
Touched(a) == IF a.a = "derive" THEN {a.h, a.g} ELSE IF a.a = "none" THEN {} ELSE {a.h}
SFrame == [][\A h \in 1..H : h \notin Touched(slast') => hs'[h] = hs[h]]_svars
(* the table of a live handle never changes; the flag of a live handle is only ever set *)
SImmutable == [][\A h \in 1..H : (Live(hs, h) /\ Live(hs', h) /\ ~ (slast'.a = "new" /\ slast'.h = h))
                                    => (hs'[h].t = hs[h].t /\ (hs[h].lat => hs'[h].lat))]_svars
(* pure calls and failing pure calls change nothing at all *)
SPureIsStutter == [][((slast'.a = "query" /\ slast'.fam \in PureFams) \/ (slast'.a = "fail" /\ ~ slast'.lazy))
                        => hs' = hs]_svars
(* a derived handle holds the table of its source *)
SDerivedSameTable == [][slast'.a = "derive" => hs'[slast'.g].t = hs[slast'.h].t]_svars

(* concept objects only ever come from a computed lattice, keep the table of the handle they came from, and
   nothing but dropping them ends that *)
SOrphans == [][\A h \in 1..H :
                 /\ (Orphan(hs', h) /\ ~ Orphan(hs, h)) => (Live(hs, h) /\ hs[h].lat /\ hs'[h].t = hs[h].t)
                 /\ Orphan(hs, h) => (hs'[h] = hs[h] \/ (hs'[h] = Free /\ slast'.a = "drop" /\ slast'.h = h))]_svars
(* an aborted drawing changes nothing but the flag of its own handle *)
SAbortOnlySetsFlag == [][slast'.a = "abort" => hs' = [hs EXCEPT ![slast'.h].lat = TRUE]]_svars

(* behaviours for replay: printed by the simulator at a fixed depth *)
EmitSession == IF Len(shist) = EmitDepth /\ RandomElement(1..EmitOneIn) = 1
               THEN PrintT(<<"HIST", ToJson(shist)>>) ELSE TRUE
=============================================================================
