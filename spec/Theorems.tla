------------------------------ MODULE Theorems ------------------------------
(***************************************************************************)
(* Design-level model checking of the specification itself.                *)
(*                                                                         *)
(* The state is one boolean table T; a step toggles one cell, so TLC       *)
(* reaches every table of every shape in Shapes from the all-blank ones    *)
(* (the edit a Definition cell assignment performs).  Every invariant      *)
(* below is a theorem of Formal Concept Analysis or a consistency          *)
(* statement between the LITERAL form of a property (what properties.jsonl *)
(* says) and the COMPUTATIONAL form the trace specifications use.  A       *)
(* violation here means the oracle is wrong - it is a machinery error,     *)
(* never a finding about the library.                                      *)
(***************************************************************************)
EXTENDS ContextOps, Documents

CONSTANT Shapes          \* set of <<n, m>>
ShapesQuick    == {<<1, 1>>, <<1, 2>>, <<2, 1>>, <<2, 2>>, <<1, 3>>, <<3, 1>>, <<2, 3>>, <<3, 2>>, <<3, 3>>}
ShapesThorough == ShapesQuick \cup {<<3, 4>>, <<4, 3>>, <<2, 4>>, <<4, 2>>, <<1, 4>>, <<4, 1>>}
VARIABLE T

Blank(n, m) == MkCtx(n, m, [i \in 1..n |-> {}])
Toggle(k, i, j) == [k EXCEPT !.rows[i] = IF j \in @ THEN @ \ {j} ELSE @ \cup {j}]

TInit == \E s \in Shapes : T = Blank(s[1], s[2])
TNext == \E i \in 1..T.n, j \in 1..T.m : T' = Toggle(T, i, j)
TSpec == TInit /\ [][TNext]_T

PO == SUBSET (1..T.n)
PP == SUBSET (1..T.m)
CL == ConceptsLit(T)
L  == LatticeOf(T)

TypeOK == IsCtx(T)

(* C01: the derivation operators form a Galois connection *)
ThGalois == \A A \in PO, B \in PP : (A \subseteq Extent(T, B)) <=> (B \subseteq Intent(T, A))
ThAntitone == /\ \A A1, A2 \in PO : A1 \subseteq A2 => Intent(T, A2) \subseteq Intent(T, A1)
              /\ \A B1, B2 \in PP : B1 \subseteq B2 => Extent(T, B2) \subseteq Extent(T, B1)
ThEmpty == Intent(T, {}) = 1..T.m /\ Extent(T, {}) = 1..T.n

(* C02: closure operators; the closure pair is the least concept containing the query *)
ThClosure == /\ \A A \in PO : A \subseteq CloO(T, A) /\ CloO(T, CloO(T, A)) = CloO(T, A)
             /\ \A A1, A2 \in PO : A1 \subseteq A2 => CloO(T, A1) \subseteq CloO(T, A2)
             /\ \A B \in PP : B \subseteq CloP(T, B) /\ CloP(T, CloP(T, B)) = CloP(T, B)
             /\ \A B1, B2 \in PP : B1 \subseteq B2 => CloP(T, B1) \subseteq CloP(T, B2)
ThLeastConcept ==
    /\ \A A \in PO : LET c == <<CloO(T, A), Intent(T, A)>>
                     IN  c \in CL /\ \A d \in CL : A \subseteq d[1] => c[1] \subseteq d[1]
    /\ \A B \in PP : LET c == <<Extent(T, B), CloP(T, B)>>
                     IN  c \in CL /\ \A d \in CL : B \subseteq d[2] => c[2] \subseteq d[2]

(* C03 / C04: all characterisations of the concept set coincide *)
ThConcepts == /\ CL = ConceptsO(T) /\ CL = ConceptsP(T) /\ CL = Concepts(T)
              /\ <<BottomExtent(T), 1..T.m>> \in CL \/ Intent(T, BottomExtent(T)) # 1..T.m
              /\ <<BottomExtent(T), Intent(T, BottomExtent(T))>> \in CL
              /\ <<1..T.n, Intent(T, 1..T.n)>> \in CL
              /\ (\A i \in 1..T.n : T.rows[i] = 1..T.m) => Cardinality(CL) = 1
ThExtentsUnique == \A c, d \in CL : c[1] = d[1] => c = d

(* C05: the computational covers are the literal covers; up and lo are converse *)
ThCovers == \A c \in CL : UpperCoverExtents(T, c[1]) = {d[1] : d \in {d \in CL : CoversLit(T, c, d)}}
ThLinks  == /\ \A x, y \in 1..L.N : (y \in L.upS[x]) <=> (x \in L.loS[y])
            /\ \A x \in 1..L.N : ToSet(L.up[x]) = L.upS[x] /\ ToSet(L.lo[x]) = L.loS[x]
            /\ \A x \in 1..L.N : Len(L.up[x]) = Cardinality(L.upS[x]) /\ Len(L.lo[x]) = Cardinality(L.loS[x])

(* C06: shortlex is a strict total order; index is a linear extension of <=, dindex of >= *)
ThOrder == /\ IsStrictTotalOrderOn(Extents(T), ShortLess)
           /\ IsStrictTotalOrderOn(Extents(T), LongLess)
           /\ \A x, y \in 1..L.N : LLt(L, x, y) => x < y /\ L.dix[x] > L.dix[y]
           /\ L.ext[1] = BottomExtent(T) /\ L.ext[L.N] = 1..T.n
           /\ \A x \in 1..L.N : \A i \in 1..(Len(L.up[x]) - 1) : ShortLess(L.ext[L.up[x][i]], L.ext[L.up[x][i + 1]])
           /\ \A x \in 1..L.N : \A i \in 1..(Len(L.lo[x]) - 1) : LongLess(L.ext[L.lo[x][i]], L.ext[L.lo[x][i + 1]])
           /\ \A x \in 1..L.N : L.dix[x] - 1 = Rank(Extents(T), LongLess, L.ext[x])
           /\ ToSet(L.ext) = Extents(T) /\ L.N = Cardinality(CL)

(* C07: lub / glb = closure of the union / intersection; lattice laws *)
ThJoinMeet ==
    /\ \A c, d \in CL : JoinLit(T, {c, d})[1] = JoinExtent(T, {c[1], d[1]})
    /\ \A c, d \in CL : MeetLit(T, {c, d})[1] = MeetExtent(T, {c[1], d[1]})
    /\ JoinLit(T, {})[1] = JoinExtent(T, {}) /\ JoinExtent(T, {}) = BottomExtent(T)
    /\ MeetLit(T, {})[1] = MeetExtent(T, {}) /\ MeetExtent(T, {}) = 1..T.n
J(a, b) == JoinExtent(T, {a, b})
M(a, b) == MeetExtent(T, {a, b})
ThLatticeLaws ==
    LET E == Extents(T)
    IN  /\ \A a, b \in E : J(a, b) = J(b, a) /\ M(a, b) = M(b, a) /\ J(a, a) = a /\ M(a, a) = a
        /\ \A a, b \in E : J(a, M(a, b)) = a /\ M(a, J(a, b)) = a
        /\ \A a, b \in E : (a \subseteq b) <=> (J(a, b) = b)
        /\ \A a, b \in E : (a \subseteq b) <=> (M(a, b) = a)
        /\ \A a, b, c \in E : J(a, J(b, c)) = J(J(a, b), c) /\ M(a, M(b, c)) = M(M(a, b), c)
        /\ \A a, b, c \in E : JoinExtent(T, {a, b, c}) = J(a, J(b, c)) /\ MeetExtent(T, {a, b, c}) = M(a, M(b, c))

(* C08: the order can equally be read off the intents; it is a partial order *)
ThPredicates ==
    /\ \A c, d \in CL : (c[1] \subseteq d[1]) <=> (d[2] \subseteq c[2])
    /\ \A c, d \in CL : c[1] \subseteq d[1] /\ d[1] \subseteq c[1] => c = d
    /\ \A c, d \in CL :
         Cardinality({nm \in {"incompatible_with", "complement_of", "subcontrary_with", "orthogonal_to"} :
                        PredHolds(T, nm, c[1], d[1])}) <= 2

(* C09: filters / ideals listed by index / dindex contain each member once, in a linear extension *)
ThTraversal ==
    \A x \in 1..L.N :
        /\ ToSet(R_UpsetUnion(L, {L.ext[x]})) = {SortedSeq(L.ext[y]) : y \in UpsetOf(L, x)}
        /\ ToSet(R_DownsetUnion(L, {L.ext[x]})) = {SortedSeq(L.ext[y]) : y \in DownsetOf(L, x)}
        /\ R_UpsetUnion(L, {L.ext[x]})[1] = SortedSeq(L.ext[x])
        /\ R_DownsetUnion(L, {L.ext[x]})[1] = SortedSeq(L.ext[x])
        (* an upset is generated by following upper covers only *)
        /\ \A y \in UpsetOf(L, x) \ {x} : \E z \in UpsetOf(L, x) : y \in L.upS[z]
        /\ \A y \in DownsetOf(L, x) \ {x} : \E z \in DownsetOf(L, x) : y \in L.loS[z]

(* upset_generalization: why the early return of the implementation loses nothing - a member whose extent is the
   whole target T is the last of the listed members; every listed member is reached from a seed through upper
   covers that are themselves listed (extents only grow on the way up); a single seed generalises to itself *)
ThGeneralization ==
    \A x, y \in 1..L.N :
        LET E == {L.ext[x], L.ext[y]}
            tgt == UNION E
            r == R_UpsetGeneralization(L, E)
        IN  /\ Len(r) >= 1
            /\ (tgt \in GenExts(L, E)) => r[Len(r)] = SortedSeq(tgt)
            /\ \A g \in GenExts(L, E) : g \in E \/ \E z \in GenExts(L, E) : L.pos[g] \in L.upS[L.pos[z]]
            /\ x = y => r = << SortedSeq(L.ext[x]) >>

(* C10: reduced labelling *)
ThLabels ==
    /\ \A i \in 1..T.n : Cardinality({x \in 1..L.N : i \in ToSet(L.olab[x])}) = 1
    /\ \A j \in 1..T.m : Cardinality({x \in 1..L.N : j \in ToSet(L.plab[x])}) = 1
    /\ \A x \in 1..L.N : L.ext[x] = UNION {ToSet(L.olab[y]) : y \in DownsetOf(L, x)}
    /\ \A x \in 1..L.N : L.int[x] = UNION {ToSet(L.plab[y]) : y \in UpsetOf(L, x)}
    /\ \A i \in 1..T.n : L.int[L.pos[ObjConceptExtent(T, i)]] = T.rows[i]
    /\ \A x \in 1..L.N : ToSet(L.atoms[x]) = {a \in 2..L.N : LLeq(L, a, x) /\ \A z \in 2..L.N : LLeq(L, z, a) => z = a}
                                              \cap (IF L.N > 1 THEN 2..L.N ELSE {})

(* C16: the seven patterns are exhaustive and disjoint for contingent columns *)
ThJunctors ==
    /\ \A p, q \in Contingent(T) : p # q =>
          /\ Cardinality({kd \in PatternKinds : Pattern[kd] = Occ(T, p, q)}) = 1
          /\ RawKind(Occ(T, p, q)) = RawKindByCases(Occ(T, p, q))
    /\ \A u \in {TRUE, FALSE} : LET r == RelationsSeq(T, u) IN
          /\ \A x \in 1..Len(r) : r[x][1] = "implication" => ProperSub(Col(T, r[x][2]), Col(T, r[x][3]))
          /\ \A x \in 1..Len(r) : r[x][1] = "equivalent" => Col(T, r[x][2]) = Col(T, r[x][3])
          /\ \A x \in 1..Len(r) : r[x][1] = "complement" => Col(T, r[x][2]) = (1..T.n) \ Col(T, r[x][3])
    /\ LET r == RelationsSeq(T, FALSE)
           c == Cardinality(Contingent(T))
       IN  2 * Len(r) = c * (c - 1)
    /\ Len(RelationsSeq(T, TRUE)) = Len(RelationsSeq(T, FALSE)) + T.m

(* C18: generators *)
ThGenerators ==
    \A c \in CL : c[1] # {} =>
        LET G == GeneratorsLit(T, c[1])
            s == R_Attributes(T, c[1])
        IN  /\ c[2] \in G
            /\ \A g \in G : CloP(T, g) = c[2]
            /\ Len(s) = Cardinality(G)
            /\ \A g \in G : Len(s[1]) <= Cardinality(g)

Perms(n) == {f \in [1..n -> 1..n] : \A a, b \in 1..n : a # b => f[a] # f[b]}
(* C11: a raw load re-derives the canonical order from ANY permutation of the stored lattice list *)
ThRawPermutation ==
    LET lst == LatList0(L)
    IN  /\ Canon(lst) = lst
        /\ L.N <= 5 => \A sigma \in Perms(L.N) : Canon(PermuteList(lst, sigma)) = lst

(* C15: transformation laws *)
Swap(S) == {<<c[2], c[1]>> : c \in S}
ThTranspose == ConceptsLit(Transpose(T)) = Swap(CL)
ThDuplicate ==
    /\ \A i \in 1..T.n : {c[2] : c \in ConceptsLit(DupRow(T, i))} = {c[2] : c \in CL}
    /\ \A j \in 1..T.m : {c[1] : c \in ConceptsLit(DupCol(T, j))} = {c[1] : c \in CL}
    /\ {c[1] : c \in ConceptsLit(AddFullCol(T))} = {c[1] : c \in CL}
ThPermute ==
    /\ \A pi \in Perms(T.n) :
          ConceptsLit(PermuteRows(T, pi)) = {<<{i \in 1..T.n : pi[i] \in c[1]}, c[2]>> : c \in CL}
    /\ \A rho \in Perms(T.m) :
          ConceptsLit(PermuteCols(T, rho)) = {<<c[1], {j \in 1..T.m : rho[j] \in c[2]}>> : c \in CL}
=============================================================================
