----------------------------- MODULE LatticeOf -----------------------------
(***************************************************************************)
(* The lattice VALUE of a context: what Context.lattice must be, as one    *)
(* record.  Members are numbered 1..N here; the library's index/dindex     *)
(* are these numbers minus one.                                            *)
(*                                                                         *)
(*  ext, int : member k's extent / intent (sets of positions)              *)
(*  pos      : extent |-> member number                                    *)
(*  dix      : member number |-> rank in long-lexicographic order (1..N)   *)
(*  up, lo   : member number |-> SEQUENCE of the upper (lower) covers,     *)
(*             ascending in shortlex (longlex) order                       *)
(*  olab,plab: reduced labels, ascending positions                         *)
(*  atoms    : member number |-> sequence of the lattice atoms below or    *)
(*             equal to it (in shortlex order)                             *)
(***************************************************************************)
EXTENDS FCA, Order

LatticeOf(K) ==
  LET E    == Extents(K)
      ext  == SortSets(E, ShortLess)
      N    == Len(ext)
      pos  == [e \in E |-> CHOOSE k \in 1..N : ext[k] = e]
      int  == [k \in 1..N |-> Intent(K, ext[k])]
      dext == SortSets(E, LongLess)
      dix  == [k \in 1..N |-> CHOOSE d \in 1..N : dext[d] = ext[k]]
      upS  == [k \in 1..N |-> {pos[e] : e \in UpperCoverExtents(K, ext[k])}]
      loS  == [k \in 1..N |-> {j \in 1..N : k \in upS[j]}]
      up   == [k \in 1..N |-> SortedSeq(upS[k])]
      lo   == [k \in 1..N |-> SetToSortSeq(loS[k], LAMBDA a, b : dix[a] < dix[b])]
      olab == [k \in 1..N |-> SortedSeq({i \in 1..K.n : ObjConceptExtent(K, i) = ext[k]})]
      plab == [k \in 1..N |-> SortedSeq({j \in 1..K.m : AttrConceptExtent(K, j) = ext[k]})]
      atomS == upS[1]
      atoms == [k \in 1..N |-> SortedSeq({a \in atomS : ext[a] \subseteq ext[k]})]
  IN  [N |-> N, ext |-> ext, int |-> int, pos |-> pos, dix |-> dix,
       upS |-> upS, loS |-> loS, up |-> up, lo |-> lo,
       olab |-> olab, plab |-> plab, atoms |-> atoms]

(* class of member k, as the library assigns it (Infimum wins over         *)
(* Supremum wins over Atom; a one-concept lattice has an Infimum only)     *)
KindOf(L, k) == IF k = 1 THEN "Infimum"
                ELSE IF k = L.N THEN "Supremum"
                ELSE IF k \in L.upS[1] THEN "Atom" ELSE "Concept"

(* order on member numbers *)
LLeq(L, a, b) == L.ext[a] \subseteq L.ext[b]
LLt(L, a, b)  == L.ext[a] \subseteq L.ext[b] /\ a # b

UpsetOf(L, k)   == {j \in 1..L.N : LLeq(L, k, j)}
DownsetOf(L, k) == {j \in 1..L.N : LLeq(L, j, k)}

JoinIdx(K, L, S) == L.pos[JoinExtent(K, {L.ext[s] : s \in S})]
MeetIdx(K, L, S) == L.pos[MeetExtent(K, {L.ext[s] : s \in S})]
=============================================================================
