------------------------------ MODULE TraceCtx ------------------------------
(***************************************************************************)
(* Trace specification for the context / lattice query families            *)
(* (C01-C10, C16, C18, C20).  Each log line is one public call on the      *)
(* real library with its arguments and its projected result; each trace    *)
(* action binds the arguments, takes the corresponding ContextSys action   *)
(* and evaluates every clause of the owning property on the recorded       *)
(* result.                                                                 *)
(*                                                                         *)
(* Verdicts are total: an action never blocks on a wrong result.  A false  *)
(* clause prints  <<"MISMATCH", line, behaviour, event, clause>>  and the  *)
(* run continues with the specification's state, so the rest of the trace  *)
(* is still examined.  The run ends with  <<"DONE", lines>> .              *)
(***************************************************************************)
EXTENDS ContextSys, Json, IOUtils

VARIABLE l
vars == <<K, lat, last, l>>

Log == ndJsonDeserialize(IOEnv.TRACE_FILE)

e == Log[l]
IsEv(name) == l <= Len(Log) /\ Log[l].ev = name /\ l' = l + 1
Clause(name, ok) == IF ok THEN TRUE ELSE PrintT(<<"MISMATCH", l, Log[l].b, Log[l].ev, name>>)
Skip == UNCHANGED <<K, lat, last>>
(* the recorded call is outside the domain the specification defines for the
   current state (only possible after an earlier mismatch): say so, move on *)
OutOfDomain == Clause("domain", FALSE) /\ Skip

Sets(s) == [i \in 1..Len(s) |-> ToSet(s[i])]
SetOfSets(s) == {ToSet(s[i]) : i \in 1..Len(s)}
PairSet(s) == {<<ToSet(s[i][1]), ToSet(s[i][2])>> : i \in 1..Len(s)}
Inc(s) == IsStrictlyIncreasing(s)
KV == K.v

TrNew == /\ IsEv("ctx.new")
         /\ New(MkCtx(e.n, e.m, [i \in 1..e.n |-> ToSet(e.rows[i])]))

(* ------------------------------- C01 --------------------------------- *)
TrIntension ==
    /\ IsEv("intension")
    /\ IF K.ok /\ ToSet(e.objs) \subseteq 1..KV.n
       THEN /\ Intension(ToSet(e.objs))
            /\ Clause("C01.intension.set", ToSet(e.res) = ToSet(last'.res))
            /\ Clause("C01.intension.order", Inc(e.res))
       ELSE OutOfDomain
TrExtension ==
    /\ IsEv("extension")
    /\ IF K.ok /\ ToSet(e.props) \subseteq 1..KV.m
       THEN /\ Extension(ToSet(e.props))
            /\ Clause("C01.extension.set", ToSet(e.res) = ToSet(last'.res))
            /\ Clause("C01.extension.order", Inc(e.res))
       ELSE OutOfDomain

(* ------------------------------- C02 --------------------------------- *)
PairClauses(p, want) ==
    /\ Clause(p \o ".extent", e.res[1] = want[1])
    /\ Clause(p \o ".intent", e.res[2] = want[2])
TrCtxGetItem ==
    /\ IsEv("ctx.getitem")
    /\ IF K.ok /\ e.items # <<>> /\ ToSet(e.items) \subseteq (IF e.side = "o" THEN 1..KV.n ELSE 1..KV.m)
       THEN /\ IF e.side = "o" THEN GetItemO(ToSet(e.items)) ELSE GetItemP(ToSet(e.items))
            /\ PairClauses("C02.ctx.getitem", last'.res)
            /\ Clause("C02.ctx.getitem.isconcept", IsConcept(KV, <<ToSet(e.res[1]), ToSet(e.res[2])>>))
       ELSE OutOfDomain
TrLatGetItem ==
    /\ IsEv("lattice.getitem")
    /\ IF ~ K.ok THEN OutOfDomain
       ELSE CASE e.kind = "o" /\ e.items # <<>> /\ ToSet(e.items) \subseteq 1..KV.n ->
                   LatGetO(ToSet(e.items)) /\ PairClauses("C02.lattice.getitem", last'.res)
                   /\ Clause("C02.lattice.getitem.member", e.same)
              [] e.kind = "p" /\ e.items # <<>> /\ ToSet(e.items) \subseteq 1..KV.m ->
                   LatGetP(ToSet(e.items)) /\ PairClauses("C02.lattice.getitem", last'.res)
                   /\ Clause("C02.lattice.getitem.member", e.same)
              [] e.kind = "call" /\ ToSet(e.items) \subseteq 1..KV.m ->
                   LatCall(ToSet(e.items)) /\ PairClauses("C02.lattice.call", last'.res)
                   /\ Clause("C02.lattice.call.member", e.same)
              [] e.kind = "top" ->
                   LatTop /\ PairClauses("C02.lattice.top", last'.res)
                   /\ Clause("C02.lattice.top.member", e.same)
              [] e.kind = "int" ->
                   (* lattice[i] is the i-th member of the iteration: judged on identity
                      with the i-th iterated member, recorded by the harness *)
                   /\ Touch("lattice.getitem")
                   /\ Clause("C02.lattice.int.member", e.same)
              [] OTHER -> OutOfDomain

(* ------------------------------- C03 --------------------------------- *)
TrLatList ==
    /\ IsEv("lattice.list")
    /\ IF K.ok
       THEN /\ LatList
            /\ Clause("C03.norepeat", Cardinality(ToSet(e.res)) = Len(e.res))
            /\ Clause("C03.set", ToSet(e.res) = ToSet(last'.res))
            /\ Clause("C03.len", e.len = Len(last'.res))
            /\ Clause("C03.bottom", \E i \in 1..Len(e.res) : ToSet(e.res[i][1]) = BottomExtent(KV))
            /\ Clause("C03.top", \E i \in 1..Len(e.res) : ToSet(e.res[i][1]) = 1..KV.n)
       ELSE OutOfDomain

(* ------------------------------- C04 --------------------------------- *)
TrGen ==
    /\ IsEv("gen")
    /\ IF K.ok
       THEN /\ Generate(e.which)
            /\ Clause("C04." \o e.which \o ".norepeat", Cardinality(ToSet(e.res)) = Len(e.res))
            /\ Clause("C04." \o e.which \o ".set", ToSet(e.res) = last'.res)
       ELSE OutOfDomain

(* ------------------------------- C05 / C06 links --------------------- *)
(* exts[x] the recorded extent of the x-th iterated member; up[x]/lo[x]    *)
(* the extents of its neighbour tuples in tuple order                      *)
TrLatLinks ==
    /\ IsEv("lattice.links")
    /\ IF K.ok
       THEN /\ LatLinks
            /\ LET L == lat'.v
                   N == Len(e.exts)
                   known == {x \in 1..N : ToSet(e.exts[x]) \in DOMAIN L.pos}
                   P(x) == L.pos[ToSet(e.exts[x])]
               IN  /\ Clause("C05.up.norepeat", \A x \in 1..N : NoDup(e.up[x]))
                   /\ Clause("C05.lo.norepeat", \A x \in 1..N : NoDup(e.lo[x]))
                   /\ Clause("C05.up.covers", \A x \in known : SetOfSets(e.up[x]) = {L.ext[j] : j \in L.upS[P(x)]})
                   /\ Clause("C05.lo.covers", \A x \in known : SetOfSets(e.lo[x]) = {L.ext[j] : j \in L.loS[P(x)]})
                   /\ Clause("C05.converse",
                             LET upP == UNION {{<<e.exts[x], e.up[x][i]>> : i \in 1..Len(e.up[x])} : x \in 1..N}
                                 loP == UNION {{<<e.lo[y][i], e.exts[y]>> : i \in 1..Len(e.lo[y])} : y \in 1..N}
                             IN  upP = loP)
                   /\ Clause("C06.up.shortlex",
                             \A x \in 1..N : \A i \in 1..(Len(e.up[x]) - 1) :
                                 ShortLess(ToSet(e.up[x][i]), ToSet(e.up[x][i + 1])))
                   /\ Clause("C06.lo.longlex",
                             \A x \in 1..N : \A i \in 1..(Len(e.lo[x]) - 1) :
                                 LongLess(ToSet(e.lo[x][i]), ToSet(e.lo[x][i + 1])))
       ELSE OutOfDomain

TrNeighbors ==
    /\ IsEv("neighbors")
    /\ IF K.ok /\ ToSet(e.objs) \subseteq 1..KV.n
       THEN /\ Neighbors(ToSet(e.objs))
            /\ Clause("C05.neighbors.norepeat", NoDup(e.res))
            /\ Clause("C05.neighbors.set", ToSet(e.res) = last'.res)
       ELSE OutOfDomain

(* ------------------------------- C06 --------------------------------- *)
TrLatOrder ==
    /\ IsEv("lattice.order")
    /\ IF K.ok
       THEN /\ LatOrder
            /\ LET N == Len(e.exts)
                   X == Sets(e.exts)
                   all == ToSet(X)
               IN  /\ Clause("C06.iter.shortlex", \A x \in 1..(N - 1) : ShortLess(X[x], X[x + 1]))
                   /\ Clause("C06.index", \A x \in 1..N : e.index[x] = x - 1)
                   /\ Clause("C06.dindex", \A x \in 1..N : e.dindex[x] = Rank(all, LongLess, X[x]))
                   /\ Clause("C06.infimum.first", e.inf = 0)
                   /\ Clause("C06.infimum.least", N >= 1 /\ \A x \in 1..N : X[1] \subseteq X[x])
                   /\ Clause("C06.supremum.last", e.sup = N - 1)
                   /\ Clause("C06.supremum.greatest", N >= 1 /\ \A x \in 1..N : X[x] \subseteq X[N])
                   /\ Clause("C06.atoms", NoDup(e.atoms) /\ SetOfSets(e.atoms) = UpperCoverExtents(KV, BottomExtent(KV)))
                   /\ Clause("C06.iter.spec", e.exts = last'.res.exts)
       ELSE OutOfDomain

(* ------------------------------- C07 --------------------------------- *)
TrJoinMeet(name) ==
    /\ IsEv(name)
    /\ IF K.ok /\ \A i \in 1..Len(e.args) : ToSet(e.args[i]) \in DOMAIN Lz.pos
       THEN /\ IF name = "join" THEN Join(SetOfSets(e.args)) ELSE Meet(SetOfSets(e.args))
            /\ Clause("C07." \o name \o "." \o e.form, ToSet(e.res) = last'.res)
            /\ Clause("C07." \o name \o "." \o e.form \o ".member", e.same)
       ELSE OutOfDomain

(* ------------------------------- C08 --------------------------------- *)
TrPred ==
    /\ IsEv("pred")
    /\ IF K.ok /\ e.name \in PredNames
       THEN /\ Touch("pred")
            /\ LET N == Len(e.exts)
                   X == Sets(e.exts)
               IN  Clause("C08." \o e.name,
                          \A i \in 1..Len(e.xs) :
                              ToSet(e.rows[i]) = {y - 1 : y \in {y \in 1..N : PredHolds(KV, e.name, X[e.xs[i] + 1], X[y])}})
       ELSE OutOfDomain
(* x <= y iff intent(y) subset of intent(x), on the recorded intents *)
TrPredIntents ==
    /\ IsEv("pred.intents")
    /\ IF K.ok
       THEN /\ Touch("pred")
            /\ LET N == Len(e.ints)
                   Y == Sets(e.ints)
               IN  Clause("C08.le.intents",
                          \A i \in 1..Len(e.xs) :
                              ToSet(e.rows[i]) = {y - 1 : y \in {y \in 1..N : Y[y] \subseteq Y[e.xs[i] + 1]}})
       ELSE OutOfDomain

(* ------------------------------- C09 --------------------------------- *)
TrTraverse(name, up) ==
    /\ IsEv(name)
    /\ IF K.ok /\ \A i \in 1..Len(e.seeds) : ToSet(e.seeds[i]) \in DOMAIN Lz.pos
       THEN /\ IF up THEN UpsetUnion(SetOfSets(e.seeds)) ELSE DownsetUnion(SetOfSets(e.seeds))
            /\ Clause("C09." \o name \o ".norepeat", NoDup(e.res))
            /\ Clause("C09." \o name \o ".set", SetOfSets(e.res) = SetOfSets(last'.res))
            /\ Clause("C09." \o name \o ".rankorder", Inc(e.rank))
            /\ Clause("C09." \o name \o ".ranklen", Len(e.rank) = Len(e.res))
       ELSE OutOfDomain

(* upset_generalization is documented as experimental and named by no property: observation only *)
TrUpsetGen ==
    /\ IsEv("upset_generalization")
    /\ IF K.ok /\ \A i \in 1..Len(e.seeds) : ToSet(e.seeds[i]) \in DOMAIN Lz.pos
       THEN /\ UpsetGeneralization(SetOfSets(e.seeds))
            /\ Clause("obs.C09.upset_generalization.set", SetOfSets(e.res) = SetOfSets(last'.res))
            /\ Clause("obs.C09.upset_generalization.norepeat", NoDup(e.res))
            /\ Clause("obs.C09.upset_generalization.rankorder", Inc(e.rank))
       ELSE OutOfDomain

(* ------------------------------- C10 --------------------------------- *)
(* Clauses named "obs.*" state more than the property text does (the format of str(), which entries a printed *)
(* relations table lists, exception classes the statement leaves open): they are evaluated and reported as    *)
(* observations but never fail a check.                                                                      *)
TrLatLabels ==
    /\ IsEv("lattice.labels")
    /\ IF K.ok
       THEN /\ LatLabels
            /\ LET L == lat'.v
                   N == Len(e.exts)
                   X == Sets(e.exts)
                   known == {x \in 1..N : X[x] \in DOMAIN L.pos}
                   P(x) == L.pos[X[x]]
               IN  /\ Clause("C10.objects", \A x \in known : e.objects[x] = L.olab[P(x)])
                   /\ Clause("C10.properties", \A x \in known : e.properties[x] = L.plab[P(x)])
                   /\ Clause("C10.objects.once",
                             \A o \in 1..KV.n : Cardinality({<<x, i>> \in (1..N) \X (1..KV.n) :
                                   i \in DOMAIN e.objects[x] /\ e.objects[x][i] = o}) = 1)
                   /\ Clause("C10.properties.once",
                             \A p \in 1..KV.m : Cardinality({<<x, i>> \in (1..N) \X (1..KV.m) :
                                   i \in DOMAIN e.properties[x] /\ e.properties[x][i] = p}) = 1)
                   /\ Clause("C10.atoms", \A x \in known : NoDup(e.atoms[x]) /\
                                   SetOfSets(e.atoms[x]) = last'.res.atoms[P(x)])
                   /\ Clause("obs.C10.str.objects", \A x \in 1..N : e.strobj[x] = e.objects[x])
                   /\ Clause("obs.C10.str.properties", \A x \in 1..N : e.strprop[x] = e.properties[x])
                   /\ Clause("obs.C10.str.lattice", e.latstr)
                   /\ Clause("C10.extent.union", \A x \in 1..N :
                                   X[x] = UNION {ToSet(e.objects[y]) : y \in {y \in 1..N : X[y] \subseteq X[x]}})
                   /\ Clause("C10.intent.union", \A x \in 1..N :
                                   ToSet(e.ints[x]) = UNION {ToSet(e.properties[y]) : y \in {y \in 1..N : X[x] \subseteq X[y]}})
       ELSE OutOfDomain

(* ------------------------------- C16 --------------------------------- *)
TrRelations ==
    /\ IsEv("relations")
    /\ IF K.ok
       THEN /\ Relations(e.unary)
            /\ Clause("C16.relations", e.res = last'.res)
       ELSE OutOfDomain
TrRelationsStr ==
    /\ IsEv("relations.str")
    /\ IF K.ok
       THEN /\ PrintRelations(e.unary, e.excl)
            /\ Clause("C16.print.defined", e.out = "ok")
            /\ Clause("obs.C16.print.rows", e.out # "ok" \/ e.rows = last'.res)
       ELSE OutOfDomain

(* ------------------------------- C18 --------------------------------- *)
TrAttributes ==
    /\ IsEv("attributes")
    /\ IF K.ok /\ ToSet(e.c) \in DOMAIN Lz.pos
       THEN /\ Attributes(ToSet(e.c))
            /\ Clause("C18.attributes", e.res = last'.res)
            /\ Clause("C18.attributes.regenerate", \A i \in 1..Len(e.regen) : e.regen[i] = e.c)
            /\ Clause("C18.attributes.regenerate.member", e.same)
       ELSE OutOfDomain
(* intents with more than 12 properties: tens of thousands of generating sets; judged without building the
   sorted expectation: strictly increasing in shortlex order (hence no repeats) and exactly the generator set *)
TrAttributesBig ==
    /\ IsEv("attributes.big")
    /\ IF K.ok
       THEN /\ Touch("attributes")
            /\ LET R == [i \in 1..Len(e.res) |-> ToSet(e.res[i])]
               IN  /\ Clause("C18.attributes.big.order", \A i \in 1..(Len(R) - 1) : ShortLess(R[i], R[i + 1]))
                   (* as in R_Attributes: the concept with the empty extent yields just its intent *)
                   /\ Clause("C18.attributes.big.set",
                             ToSet(R) = IF ToSet(e.c) = {} THEN {Intent(KV, {})} ELSE GeneratorsLit(KV, ToSet(e.c)))
                   /\ Clause("C18.attributes.big.minimal", Len(e.res) = 0 \/ e.minimal = e.res[1] \/ ToSet(e.c) = BottomExtent(KV))
       ELSE OutOfDomain

TrMinimal ==
    /\ IsEv("minimal")
    /\ IF K.ok /\ ToSet(e.c) \in DOMAIN Lz.pos
       THEN /\ Minimal(ToSet(e.c))
            /\ Clause("C18.minimal", e.res = last'.res)
       ELSE OutOfDomain

(* ------------------------------- C20 --------------------------------- *)
(* exts: iteration extents; nodes: node numbers in statement order; edges:  *)
(* <<tail, head>> node numbers of the attribute-free edges; hl / tl:        *)
(* <<node, callback argument positions, label text, callback return text>>  *)
TrGraphviz ==
    /\ IsEv("graphviz")
    /\ IF K.ok
       THEN /\ Graphviz
            /\ LET L == lat'.v
                   N == Len(e.exts)
                   X == Sets(e.exts)
                   ok == \A x \in 1..N : X[x] \in DOMAIN L.pos
                   P(x) == L.pos[X[x]]
                   wantEdges == {<<t, h>> \in (0..(N - 1)) \X (0..(N - 1)) : P(h + 1) \in L.loS[P(t + 1)]}
                   HL == ToSet(e.hl)
                   TL == ToSet(e.tl)
               IN  /\ Clause("C20.nodes", NoDup(e.nodes) /\ ToSet(e.nodes) = 0..(N - 1))
                   /\ Clause("C20.edges.once", NoDup(e.edges))
                   /\ Clause("C20.edges", ok /\ ToSet(e.edges) = wantEdges)
                   /\ Clause("C20.objlabels.where", ok /\ NoDup([i \in 1..Len(e.hl) |-> e.hl[i][1]]) /\
                             {h[1] : h \in HL} = {x - 1 : x \in {x \in 1..N : L.olab[P(x)] # <<>>}})
                   /\ Clause("C20.objlabels.names", ok /\ \A h \in HL : h[2] = L.olab[P(h[1] + 1)] /\ h[3] = h[4])
                   /\ Clause("C20.proplabels.where", ok /\ NoDup([i \in 1..Len(e.tl) |-> e.tl[i][1]]) /\
                             {h[1] : h \in TL} = {x - 1 : x \in {x \in 1..N : L.plab[P(x)] # <<>>}})
                   /\ Clause("C20.proplabels.names", ok /\ \A h \in TL : h[2] = L.plab[P(h[1] + 1)] /\ h[3] = h[4])
                   /\ Clause("C20.noextra", e.extra = 0)
                   /\ Clause("C20.undirected", e.undirected)
       ELSE OutOfDomain

(* ------------------------------- C15 --------------------------------- *)
(* A transformed context K2 was built through the public API (take with     *)
(* reorder, transposed, add_object / add_property) and both lattices were   *)
(* observed.  Everything about K2 is logged in K1's coordinates (labels     *)
(* move with their rows / columns), so the clauses are statements about     *)
(* labels.  t2 is K2's own table as read back, in K2's order.               *)
PS(s) == {<<ToSet(s[i][1]), ToSet(s[i][2])>> : i \in 1..Len(s)}
SwapPS(S) == {<<c[2], c[1]>> : c \in S}
(* tuples of position sets *)
TS(s) == {[x \in 1..Len(s[i]) |-> ToSet(s[i][x])] : i \in 1..Len(s)}
(* covers:  <<lower extent, upper extent, lower intent, upper intent>>
   join/meet tables: <<ext a, ext b, ext join, ext meet, int a, int b, int join, int meet>> *)
(* relations as statements: symmetric kinds as unordered pairs *)
RelSet(s) == {IF s[i][1] = "implication" THEN <<s[i][1], <<s[i][2], s[i][3]>> >>
              ELSE <<s[i][1], {s[i][2], s[i][3]}>> : i \in 1..Len(s)}
K2of(t) == MkCtx(t.n, t.m, [i \in 1..t.n |-> ToSet(t.rows[i])])
TrRel ==
    /\ IsEv("rel")
    /\ IF ~ K.ok THEN OutOfDomain
       ELSE /\ Skip
            /\ LET k2 == K2of(e.t2)
                   C1 == PS(e.c1)
                   C2 == PS(e.c2)
                   nm == "C15." \o e.kind
               IN  CASE e.kind = "perm" ->
                          /\ Clause(nm \o ".table", k2 = PermuteCols(PermuteRows(KV, e.pi), e.rho))
                          /\ Clause(nm \o ".concepts", C1 = C2)
                          /\ Clause(nm \o ".covers", TS(e.cov1) = TS(e.cov2))
                          /\ Clause(nm \o ".joinmeet", TS(e.jm1) = TS(e.jm2))
                          /\ Clause(nm \o ".relations", RelSet(e.rel1) = RelSet(e.rel2))
                          /\ Clause(nm \o ".count", Len(e.c1) = Len(e.c2))
                          /\ Clause(nm \o ".gens", PS(e.g2a) = C1 /\ PS(e.g2b) = C1)
                   [] e.kind = "perm-lite" ->
                          (* very large lattices: the same label-level join / meet statements on a spread of pairs *)
                          /\ Clause("C15.perm.joinmeet", TS(e.jm1) = TS(e.jm2))
                          /\ Clause("C15.perm.count", e.n1 = e.n2)
                          /\ Clause("C15.perm.joinmeet.oracle",
                                    \A x \in TS(e.jm1) : x[3] = JoinExtent(KV, {x[1], x[2]}) /\ x[4] = x[1] \cap x[2])
                   [] e.kind = "transpose" ->
                          /\ Clause(nm \o ".table", k2 = Transpose(KV))
                          /\ Clause(nm \o ".concepts", C2 = SwapPS(C1))
                          /\ Clause(nm \o ".covers", TS(e.cov2) = {<<x[4], x[3], x[2], x[1]>> : x \in TS(e.cov1)})
                          /\ Clause(nm \o ".joinmeet",
                                    TS(e.jm2) = {<<x[5], x[6], x[8], x[7], x[1], x[2], x[4], x[3]>> : x \in TS(e.jm1)})
                          /\ Clause(nm \o ".count", Len(e.c1) = Len(e.c2))
                          /\ Clause(nm \o ".gens", PS(e.g2a) = C2 /\ PS(e.g2b) = C2)
                   [] e.kind = "duprow" ->
                          /\ Clause(nm \o ".table", k2 = DupRow(KV, e.i))
                          /\ Clause(nm \o ".intents", {c[2] : c \in C2} = {c[2] : c \in C1})
                          /\ Clause(nm \o ".count", Len(e.c1) = Len(e.c2) /\ Cardinality(C2) = Cardinality(C1))
                          /\ Clause(nm \o ".gens", PS(e.g2a) = C2 /\ PS(e.g2b) = C2)
                   [] e.kind = "dupcol" ->
                          /\ Clause(nm \o ".table", k2 = DupCol(KV, e.j))
                          /\ Clause(nm \o ".extents", {c[1] : c \in C2} = {c[1] : c \in C1})
                          /\ Clause(nm \o ".count", Len(e.c1) = Len(e.c2) /\ Cardinality(C2) = Cardinality(C1))
                          /\ Clause(nm \o ".gens", PS(e.g2a) = C2 /\ PS(e.g2b) = C2)
                   [] e.kind = "fullcol" ->
                          /\ Clause(nm \o ".table", k2 = AddFullCol(KV))
                          /\ Clause(nm \o ".extents", {c[1] : c \in C2} = {c[1] : c \in C1})
                          /\ Clause(nm \o ".count", Len(e.c1) = Len(e.c2) /\ Cardinality(C2) = Cardinality(C1))
                          /\ Clause(nm \o ".gens", PS(e.g2a) = C2 /\ PS(e.g2b) = C2)
                   [] OTHER -> Clause("domain", FALSE)

(* ---------------- very large lattices: relational clauses only ---------------- *)
(* Lattices with tens of thousands of concepts or hundreds of atoms are beyond what LatticeOf can    *)
(* build here; the clauses below need only the context value K and the extents the library itself    *)
(* reports (kept in `last` by the rel.base event): they state each property directly on those        *)
(* extents (set inclusion, closures computed from K), for all members or a spread of them.           *)
TrRelBase ==
    /\ IsEv("rel.base")
    /\ K.ok
    /\ last' = [call |-> "rel.base", X |-> Sets(e.exts), index |-> e.index, dindex |-> e.dindex,
                 latatoms |-> e.latatoms, inf |-> e.inf, sup |-> e.sup]
    /\ UNCHANGED <<K, lat>>
RB == last
HasBase == K.ok /\ "X" \in DOMAIN last
TrRelOrder ==
    /\ IsEv("rel.order")
    /\ IF HasBase
       THEN LET X == RB.X  N == Len(X)
            IN  /\ Clause("C06.iter.shortlex", \A x \in 1..(N - 1) : ShortLess(X[x], X[x + 1]))
                /\ Clause("C06.index", \A x \in 1..N : RB.index[x] = x - 1)
                /\ Clause("C06.dindex", \A i \in 1..Len(e.xs) :
                              RB.dindex[e.xs[i] + 1] = Cardinality({y \in 1..N : LongLess(X[y], X[e.xs[i] + 1])}))
                /\ Clause("C06.infimum.first", RB.inf = 0)
                /\ Clause("C06.infimum.least", X[1] = BottomExtent(KV))
                /\ Clause("C06.supremum.last", RB.sup = N - 1 /\ X[N] = 1..KV.n)
                /\ Clause("C06.atoms", NoDup(RB.latatoms) /\
                              {X[a + 1] : a \in ToSet(RB.latatoms)} =
                              {X[y] : y \in {y \in 2..N : ~ \E z \in 2..N : ProperSub(X[z], X[y])}})
       ELSE OutOfDomain
    /\ Skip
TrRelPred ==
    /\ IsEv("rel.pred")
    /\ IF HasBase /\ e.name \in PredNames
       THEN LET X == RB.X  N == Len(X)
            IN  Clause("C08." \o e.name,
                       \A i \in 1..Len(e.xs) :
                           ToSet(e.rows[i]) = {y - 1 : y \in {y \in 1..N : PredHolds(KV, e.name, X[e.xs[i] + 1], X[y])}})
       ELSE OutOfDomain
    /\ Skip
TrRelJoinMeet ==
    /\ IsEv("rel.joinmeet")
    /\ IF HasBase
       THEN LET X == RB.X
                E == {X[a + 1] : a \in ToSet(e.args)}
                want == IF e.name = "join" THEN JoinExtent(KV, E) ELSE MeetExtent(KV, E)
            IN  /\ Clause("C07." \o e.name \o "." \o e.form, e.res >= 0 /\ X[e.res + 1] = want)
                /\ Clause("C07." \o e.name \o "." \o e.form \o ".member", e.same)
       ELSE OutOfDomain
    /\ Skip
TrRelTraverse ==
    /\ IsEv("rel.traverse")
    /\ IF HasBase
       THEN LET X == RB.X  N == Len(X)
                S == {X[a + 1] : a \in ToSet(e.seeds)}
                want == IF e.up THEN {y \in 1..N : \E s0 \in S : s0 \subseteq X[y]}
                                ELSE {y \in 1..N : \E s0 \in S : X[y] \subseteq s0}
            IN  /\ Clause("C09." \o e.name \o ".norepeat", NoDup(e.res))
                /\ Clause("C09." \o e.name \o ".set", {r + 1 : r \in ToSet(e.res)} = want)
                /\ Clause("C09." \o e.name \o ".rankorder", Inc(e.rank))
       ELSE OutOfDomain
    /\ Skip
(* labelled: <<member, positions>> for the members that carry a label; atoms: <<member, atom members>> for a spread *)
TrRelLabels ==
    /\ IsEv("rel.labels")
    /\ IF HasBase
       THEN LET X == RB.X  N == Len(X)
                OL == ToSet(e.olabelled)
                PL == ToSet(e.plabelled)
                LA == {X[a + 1] : a \in ToSet(RB.latatoms)}
            IN  /\ Clause("C10.objects", \A r \in OL : Inc(r[2]) /\ \A i \in ToSet(r[2]) : ObjConceptExtent(KV, i) = X[r[1] + 1])
                /\ Clause("C10.objects.once", \A i \in 1..KV.n : Cardinality({r \in OL : i \in ToSet(r[2])}) = 1)
                /\ Clause("C10.properties", \A r \in PL : Inc(r[2]) /\ \A j \in ToSet(r[2]) : AttrConceptExtent(KV, j) = X[r[1] + 1])
                /\ Clause("C10.properties.once", \A j \in 1..KV.m : Cardinality({r \in PL : j \in ToSet(r[2])}) = 1)
                /\ Clause("C10.atoms", \A r \in ToSet(e.atoms) : NoDup(r[2]) /\
                              {X[a + 1] : a \in ToSet(r[2])} = {a \in LA : a \subseteq X[r[1] + 1]})
       ELSE OutOfDomain
    /\ Skip

(* a public call raised on a valid input: the specification defines a result
   for every call it models, so this is never a step of the specification   *)
TrCrash == /\ IsEv("crash")
           /\ Clause(e.prop \o ".raises." \o e.exc, FALSE)
           /\ Skip

TrDone == l = Len(Log) + 1 /\ l' = l + 1 /\ PrintT(<<"DONE", Len(Log)>>) /\ Skip

TraceInit == Init /\ l = 1
TraceNext ==
    \/ TrNew \/ TrIntension \/ TrExtension \/ TrCtxGetItem \/ TrLatGetItem
    \/ TrLatList \/ TrGen \/ TrLatLinks \/ TrNeighbors \/ TrLatOrder
    \/ TrJoinMeet("join") \/ TrJoinMeet("meet") \/ TrPred \/ TrPredIntents
    \/ TrUpsetGen
    \/ TrTraverse("upset", TRUE) \/ TrTraverse("upset_union", TRUE)
    \/ TrTraverse("downset", FALSE) \/ TrTraverse("downset_union", FALSE)
    \/ TrLatLabels \/ TrRelations \/ TrRelationsStr \/ TrAttributes \/ TrAttributesBig \/ TrMinimal
    \/ TrGraphviz \/ TrRel \/ TrRelBase \/ TrRelOrder \/ TrRelPred \/ TrRelJoinMeet \/ TrRelTraverse \/ TrRelLabels
    \/ TrCrash \/ TrDone
TraceSpec == TraceInit /\ [][TraceNext]_vars
=============================================================================
