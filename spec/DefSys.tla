------------------------------- MODULE DefSys -------------------------------
(***************************************************************************)
(* The Definition handle as a state machine over a bounded name universe:  *)
(* one action per mutator, arguments ranging over every instance that can  *)
(* be formed from the argument universes.  Used for                        *)
(*   - design model checking: WF is inductive, failed calls change         *)
(*     nothing, derivation laws (involutions, freeze/thaw inverse);        *)
(*   - counting the reachable states (cross-checked with the harness's     *)
(*     own enumeration of the same universe);                              *)
(*   - generating behaviours (-simulate) that are replayed into the real   *)
(*     library (spec -> code).                                             *)
(***************************************************************************)
EXTENDS Definition, Json

CONSTANTS ONames,     \* names usable where an object name is expected
          PNames,     \* names usable where a property name is expected
          MaxList,    \* maximal length of a name-list argument
          Others      \* operand definitions for union / intersection
VARIABLES d, last, hist
dvars == <<d, last, hist>>

Lists(S) == UNION {[1..k -> S] : k \in 0..MaxList}

Calls(cur) ==
       {[op |-> "setitem", o |-> o, p |-> p, v |-> v] : o \in ONames, p \in PNames, v \in BOOLEAN}
  \cup {[op |-> op, o |-> o, names |-> ns] : op \in {"add_object", "set_object"}, o \in ONames, ns \in Lists(PNames)}
  \cup {[op |-> op, p |-> p, names |-> ns] : op \in {"add_property", "set_property"}, p \in PNames, ns \in Lists(ONames)}
  \cup {[op |-> "remove_object", o |-> o] : o \in ONames}
  \cup {[op |-> "remove_property", p |-> p] : p \in PNames}
  \cup {[op |-> "rename_object", old |-> a, new |-> b] : a \in ONames, b \in ONames}
  \cup {[op |-> "rename_property", old |-> a, new |-> b] : a \in PNames, b \in PNames}
  \cup {[op |-> "move_object", o |-> o, idx |-> i] : o \in ONames, i \in 0..(IF Len(cur.objs) = 0 THEN 0 ELSE Len(cur.objs) - 1)}
  \cup {[op |-> "move_property", p |-> p, idx |-> i] : p \in PNames, i \in 0..(IF Len(cur.props) = 0 THEN 0 ELSE Len(cur.props) - 1)}
  \cup {[op |-> "remove_empty_objects"], [op |-> "remove_empty_properties"]}
  \cup {[op |-> op, other |-> k, ignore |-> g] : op \in {"union_update", "intersection_update"},
                                                  k \in 1..Len(Others), g \in BOOLEAN}

OtherOf(c) == IF "other" \in DOMAIN c THEN Others[c.other] ELSE Empty

DInit == d = Empty /\ last = [out |-> "ok", ret |-> None] /\ hist = <<>>
Step(c) == LET r == Apply(d, c, OtherOf(c))
           IN  /\ d' = r.d
               /\ last' = [call |-> c, out |-> r.out, ret |-> r.ret]
               /\ hist' = Append(hist, [call |-> c, out |-> r.out, ret |-> r.ret, post |-> r.d])
DNext == \E c \in Calls(d) : Step(c)
DSpec == DInit /\ [][DNext]_dvars

(* hist is an observation only: hide it (and last) from the fingerprint *)
DView == d

DWF == WF(d)
(* a call the model rejects leaves the definition unchanged *)
ErrorsChangeNothing == [][last'.out # "ok" => d' = d]_dvars
(* bools has one row per object and one cell per property *)
RowsWellShaped == DOMAIN RowsOf(d) = 1..Len(d.objs) /\ \A i \in 1..Len(d.objs) : RowsOf(d)[i] \subseteq 1..Len(d.props)

(* derivation laws (C14) on every reachable value *)
ThInvolutions == Transposed(Transposed(d)) = d /\ Inverted(Inverted(d)) = d
ThDerivedWF == /\ WF(Transposed(d)) /\ WF(Inverted(d))
               /\ \A k \in 1..Len(Others), g \in BOOLEAN :
                     /\ WF(Derive(d, [op |-> "union", ignore |-> g], Others[k]).d)
                     /\ WF(Derive(d, [op |-> "intersection", ignore |-> g], Others[k]).d)
ThUnionLaws == \A k \in 1..Len(Others) :
                  LET o == Others[k]
                      u == Derive(d, [op |-> "union", ignore |-> FALSE], o)
                      v == Derive(o, [op |-> "union", ignore |-> FALSE], d)
                      i == Derive(d, [op |-> "intersection", ignore |-> FALSE], o)
                      j == Derive(o, [op |-> "intersection", ignore |-> FALSE], d)
                  IN  /\ u.out = v.out /\ i.out = j.out /\ u.out = i.out
                      /\ u.out = "ok" => /\ u.d.cells = v.d.cells /\ Rng(u.d.objs) = Rng(v.d.objs)
                                         /\ i.d.cells = j.d.cells /\ Rng(i.d.objs) = Rng(j.d.objs)
                                         /\ \A c \in i.d.cells : c \in d.cells /\ c \in o.cells
                                         /\ \A c \in d.cells \cup o.cells : c \in u.d.cells
ThTakeAll == Derive(d, [op |-> "take", objects |-> [given |-> FALSE, names |-> <<>>],
                        properties |-> [given |-> FALSE, names |-> <<>>], reorder |-> FALSE], Empty).d = d
(* the context built from d exists iff CtxWF; thawing it gives d back: as values these are the identity *)
ThFreeze == CtxWF(d) => /\ Len(d.objs) > 0 /\ Len(d.props) > 0
                        /\ FillRatio(d)[1] <= FillRatio(d)[2]

(* behaviours for spec -> code replay: printed as JSON at the depth bound (used with -simulate) *)
CONSTANTS EmitDepth, EmitOneIn
EmitHist == IF Len(hist) = EmitDepth /\ RandomElement(1..EmitOneIn) = 1
            THEN PrintT(<<"HIST", ToJson([i \in 1..Len(hist) |-> hist[i].call])>>) ELSE TRUE
=============================================================================
