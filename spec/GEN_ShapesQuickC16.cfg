SPECIFICATION GSpec
CONSTANT Shapes <- ShapesQuickC16
INVARIANT WellFormed
INVARIANT Emit
CHECK_DEADLOCK FALSE
