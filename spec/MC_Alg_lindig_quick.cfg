SPECIFICATION Spec
CONSTANT Algo = "lindig"
CONSTANT Shapes <- ShapesQuick
INVARIANT LindigNeighborsAreCovers
INVARIANT LindigOrdered
INVARIANT LindigFinal
INVARIANT FcboSound
INVARIANT FcboFinal
INVARIANT MergeOrdered
INVARIANT MergeFinal
CHECK_DEADLOCK FALSE
