---------------------------- MODULE TraceSession ----------------------------
(***************************************************************************)
(* Binds a replayed session (a behaviour of SessionSys.tla chosen by TLC's  *)
(* simulator and executed on real Context objects) back to the model: each  *)
(* logged step carries the action record and the lazy-lattice flag of every *)
(* live handle as observed through todict(ignore_lattice=None) AFTER the    *)
(* step.  TLC takes the same step in the model and compares.  The flag is   *)
(* the C11 statement "the lattice is included exactly when it has been      *)
(* computed (default) ..."; the per-call results of the same session are    *)
(* validated by TraceCtx.tla (other job).                                   *)
(***************************************************************************)
EXTENDS SessionSys, IOUtils, TLCExt

VARIABLES l
Log == ndJsonDeserialize(IOEnv.TRACE_FILE)
tvars == <<hs, slast, shist, l>>
e == Log[l]
Clause(name, ok) == IF ok THEN TRUE ELSE PrintT(<<"MISMATCH", l, e.b, e.ev, name>>)
IsEv(n) == l <= Len(Log) /\ Log[l].ev = n /\ l' = l + 1

TrReset == IsEv("s.reset") /\ hs' = [h \in 1..H |-> Free] /\ UNCHANGED <<slast, shist>>
LiveSet(S) == {h \in 1..H : Live(S, h)}
(* flags : sequence of <<handle, cached>> for the handles the replayer holds as contexts (an orphan has no
   context left whose flag could be read: it is not listed) *)
ObsLive == {e.flags[i][1] : i \in 1..Len(e.flags)}
ObsFlag(h) == LET i == CHOOSE i \in 1..Len(e.flags) : e.flags[i][1] = h IN e.flags[i][2]
TrStep ==
    /\ IsEv("s.step")
    /\ IF Enabled(hs, e.a)
       THEN /\ hs' = Step(hs, e.a)
            /\ Clause("C11.session.live", e.out # "ok" \/ ObsLive = LiveSet(hs'))
            /\ Clause("C11.session.flags", e.out # "ok" \/ ObsLive # LiveSet(hs')
                                           \/ \A h \in ObsLive : ObsFlag(h) = hs'[h].lat)
            /\ Clause("C11.session." \o e.a.a \o ".outcome", e.out = "ok")
       ELSE /\ Clause("machinery.session.enabled", FALSE)
            /\ UNCHANGED hs
    /\ UNCHANGED <<slast, shist>>
(* just before a handle is dropped, and for every handle alive at the end of the session: its full public
   observation (context, lattice order, links, labels, joins, traversals ...) against that of a context built
   from scratch from the table the model says the handle holds; observing computes the lattice *)
TrObs ==
    /\ IsEv("s.obs")
    /\ Clause("machinery.session.obs.live", e.h \in 1..H /\ Live(hs, e.h))
    /\ Clause("C11.session.obs.outcome", e.out = "ok")
    /\ Clause("C11.session.obs.indistinguishable", e.out # "ok" \/ e.obs = e.fresh)
    /\ hs' = IF e.h \in 1..H /\ Live(hs, e.h) THEN [hs EXCEPT ![e.h].lat = TRUE] ELSE hs
    /\ UNCHANGED <<slast, shist>>
TrDone == l = Len(Log) + 1 /\ l' = l + 1 /\ PrintT(<<"DONE", Len(Log)>>) /\ UNCHANGED <<hs, slast, shist>>

TraceInit == SInit /\ l = 1
TraceNext == TrReset \/ TrStep \/ TrObs \/ TrDone
TraceSpec == TraceInit /\ [][TraceNext]_tvars
=============================================================================
