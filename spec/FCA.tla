-------------------------------- MODULE FCA --------------------------------
(***************************************************************************)
(* Declarative semantics of Formal Concept Analysis over a context value.  *)
(*                                                                         *)
(* A context value K is a record [n, m, rows]: n objects, m properties,    *)
(* rows[i] the set of property positions object i has.  Labels never occur *)
(* here: every operator works on positions 1..n / 1..m, so the oracle is   *)
(* independent of the names the harness chooses.                           *)
(*                                                                         *)
(* Two forms are given for everything that is expensive:                   *)
(*   - the LITERAL form, which is the property statement word for word     *)
(*     (ConceptsLit, CoversLit, JoinLit, MeetLit, GeneratorsLit ...);      *)
(*   - a COMPUTATIONAL form (Extents by column intersections, upper covers *)
(*     as minimal one-object closures, join = closure of the union ...).   *)
(* Theorems.tla has TLC check that both agree on every table up to a       *)
(* bound; the trace specifications use the computational forms.            *)
(***************************************************************************)
EXTENDS Naturals, FiniteSets, Sequences, FiniteSetsExt, SequencesExt, TLC

IsCtx(K) == /\ K.n \in Nat \ {0}
            /\ K.m \in Nat \ {0}
            /\ DOMAIN K.rows = 1..K.n
            /\ \A i \in 1..K.n : K.rows[i] \subseteq 1..K.m

MkCtx(n, m, rows) == [n |-> n, m |-> m, rows |-> rows]

Objs(K)  == 1..K.n
Props(K) == 1..K.m

(* derivation operators  A |-> A'   and   B |-> B' *)
Intent(K, A) == {j \in 1..K.m : \A i \in A : j \in K.rows[i]}
Extent(K, B) == {i \in 1..K.n : B \subseteq K.rows[i]}
Col(K, j)    == {i \in 1..K.n : j \in K.rows[i]}

CloO(K, A) == Extent(K, Intent(K, A))
CloP(K, B) == Intent(K, Extent(K, B))

IsConcept(K, c) == Intent(K, c[1]) = c[2] /\ Extent(K, c[2]) = c[1]

(* the property statement, literally: all pairs (A, B) with A' = B, B' = A *)
ConceptsLit(K) == {c \in (SUBSET (1..K.n)) \X (SUBSET (1..K.m)) : IsConcept(K, c)}
ConceptsO(K)   == {<<CloO(K, A), Intent(K, A)>> : A \in SUBSET (1..K.n)}
ConceptsP(K)   == {<<Extent(K, B), CloP(K, B)>> : B \in SUBSET (1..K.m)}

(* computational form: the extents are exactly the intersections of        *)
(* families of column extents (the empty family giving all objects)        *)
RECURSIVE ExtUpTo(_, _)
ExtUpTo(K, j) == IF j = 0 THEN {1..K.n}
                 ELSE LET S == ExtUpTo(K, j - 1)
                          c == Col(K, j)
                      IN  S \cup {a \cap c : a \in S}
Extents(K)  == ExtUpTo(K, K.m)
Concepts(K) == {<<e, Intent(K, e)>> : e \in Extents(K)}

(* order *)
Leq(c, d) == c[1] \subseteq d[1]
Lt(c, d)  == c[1] \subseteq d[1] /\ c[1] # d[1]
ProperSub(a, b) == a \subseteq b /\ a # b

CoversLit(K, c, d) == /\ c \in ConceptsLit(K) /\ d \in ConceptsLit(K)
                      /\ Lt(c, d)
                      /\ ~ \E e \in ConceptsLit(K) : Lt(c, e) /\ Lt(e, d)

(* computational: the upper covers of the concept with extent A are the    *)
(* minimal closures of A plus one further object (Lindig 2000)             *)
UpperCoverExtents(K, A) ==
    LET cand == {CloO(K, A \cup {i}) : i \in (1..K.n) \ A}
    IN  {e \in cand : ~ \E f \in cand : ProperSub(f, e)}

(* bottom and top *)
BottomExtent(K) == CloO(K, {})
TopExtent(K)    == 1..K.n

(* join / meet, literal: least upper / greatest lower bound among concepts *)
JoinLit(K, S) == CHOOSE u \in ConceptsLit(K) :
                   /\ \A s \in S : Leq(s, u)
                   /\ \A v \in ConceptsLit(K) : (\A s \in S : Leq(s, v)) => Leq(u, v)
MeetLit(K, S) == CHOOSE u \in ConceptsLit(K) :
                   /\ \A s \in S : Leq(u, s)
                   /\ \A v \in ConceptsLit(K) : (\A s \in S : Leq(v, s)) => Leq(v, u)
(* computational, on extents *)
JoinExtent(K, E) == CloO(K, UNION E)
RECURSIVE InterAll(_, _)
InterAll(base, E) == IF E = {} THEN base
                     ELSE LET x == CHOOSE x \in E : TRUE
                          IN  InterAll(base \cap x, E \ {x})
MeetExtent(K, E) == InterAll(1..K.n, E)

(* object / attribute concepts (reduced labelling) *)
ObjConceptExtent(K, i)  == CloO(K, {i})
AttrConceptExtent(K, j) == Col(K, j)

(* generating property sets of the concept with extent A *)
GeneratorsLit(K, A) == {B \in SUBSET Intent(K, A) : Extent(K, B) = A}

(* context transformations (C15) *)
Transpose(K) == [n |-> K.m, m |-> K.n, rows |-> [j \in 1..K.m |-> Col(K, j)]]
(* pi : new object position -> old object position *)
PermuteRows(K, pi) == [n |-> K.n, m |-> K.m, rows |-> [i \in 1..K.n |-> K.rows[pi[i]]]]
(* rho : new property position -> old property position *)
PermuteCols(K, rho) == [n |-> K.n, m |-> K.m,
                        rows |-> [i \in 1..K.n |-> {j \in 1..K.m : rho[j] \in K.rows[i]}]]
DupRow(K, i) == [n |-> K.n + 1, m |-> K.m,
                 rows |-> [r \in 1..(K.n + 1) |-> IF r = K.n + 1 THEN K.rows[i] ELSE K.rows[r]]]
DupCol(K, j) == [n |-> K.n, m |-> K.m + 1,
                 rows |-> [r \in 1..K.n |-> IF j \in K.rows[r] THEN K.rows[r] \cup {K.m + 1} ELSE K.rows[r]]]
AddFullCol(K) == [n |-> K.n, m |-> K.m + 1, rows |-> [r \in 1..K.n |-> K.rows[r] \cup {K.m + 1}]]

(* helpers shared by all modules *)
SortedSeq(S) == SetToSortSeq(S, <)          \* finite set of naturals -> ascending sequence
IsStrictlyIncreasing(s) == \A i \in 1..(Len(s) - 1) : s[i] < s[i + 1]
NoDup(s) == \A i, j \in 1..Len(s) : i # j => s[i] # s[j]
=============================================================================
