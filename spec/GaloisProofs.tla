---------------------------- MODULE GaloisProofs ----------------------------
(***************************************************************************)
(* Unbounded (TLAPS-checked) proofs of the set-theoretic core of the       *)
(* oracle: the derivation operators of FCA.tla form a Galois connection,   *)
(* are antitone, and their composition is a closure operator - for         *)
(* contexts of ANY size, complementing the bounded TLC checks of           *)
(* Theorems.tla.  The context is abstracted to two arbitrary sets G, M and *)
(* an arbitrary relation I between them.                                   *)
(***************************************************************************)
EXTENDS TLAPS

CONSTANTS G, M, I
ASSUME Ctx == I \subseteq G \X M

Intent(A) == {j \in M : \A i \in A : <<i, j>> \in I}
Extent(B) == {i \in G : \A j \in B : <<i, j>> \in I}
CloO(A) == Extent(Intent(A))
CloP(B) == Intent(Extent(B))

THEOREM Galois == \A A \in SUBSET G, B \in SUBSET M : (A \subseteq Extent(B)) <=> (B \subseteq Intent(A))
  BY DEF Intent, Extent

THEOREM AntitoneIntent == \A A1, A2 \in SUBSET G : A1 \subseteq A2 => Intent(A2) \subseteq Intent(A1)
  BY DEF Intent

THEOREM AntitoneExtent == \A B1, B2 \in SUBSET M : B1 \subseteq B2 => Extent(B2) \subseteq Extent(B1)
  BY DEF Extent

THEOREM EmptyDerivation == Intent({}) = M /\ Extent({}) = G
  BY DEF Intent, Extent

THEOREM Extensive == \A A \in SUBSET G : A \subseteq CloO(A)
  BY DEF CloO, Intent, Extent

THEOREM TripleIntent == \A A \in SUBSET G : Intent(CloO(A)) = Intent(A)
  BY DEF CloO, Intent, Extent

THEOREM Idempotent == \A A \in SUBSET G : CloO(CloO(A)) = CloO(A)
  BY TripleIntent DEF CloO

THEOREM Monotone == \A A1, A2 \in SUBSET G : A1 \subseteq A2 => CloO(A1) \subseteq CloO(A2)
  BY DEF CloO, Intent, Extent

(* the closure pair is a formal concept, and the least one whose extent contains A *)
IsConcept(X, Y) == X \in SUBSET G /\ Y \in SUBSET M /\ Intent(X) = Y /\ Extent(Y) = X
THEOREM ClosureIsConcept == \A A \in SUBSET G : IsConcept(CloO(A), Intent(A))
  BY TripleIntent DEF IsConcept, CloO, Intent, Extent
THEOREM ClosureIsLeast == \A A \in SUBSET G, X \in SUBSET G, Y \in SUBSET M :
                              IsConcept(X, Y) /\ A \subseteq X => CloO(A) \subseteq X
  BY DEF IsConcept, CloO, Intent, Extent

(* the order can be read off either side *)
THEOREM OrderDuality == \A X1, X2 \in SUBSET G, Y1, Y2 \in SUBSET M :
                            IsConcept(X1, Y1) /\ IsConcept(X2, Y2) => ((X1 \subseteq X2) <=> (Y2 \subseteq Y1))
  BY DEF IsConcept, Intent, Extent

(* the intersection of two extents is an extent: meets are intersections *)
THEOREM MeetIsIntersection == \A X1, X2 \in SUBSET G, Y1, Y2 \in SUBSET M :
                            IsConcept(X1, Y1) /\ IsConcept(X2, Y2) => CloO(X1 \cap X2) = X1 \cap X2
  BY DEF IsConcept, CloO, Intent, Extent
=============================================================================
