SPECIFICATION MCSpec
CONSTANT MaxN = 3
CONSTANT MaxM = 3
VIEW MCView
INVARIANT TypeOK
INVARIANT CacheCoherent
INVARIANT LookupAgrees
PROPERTY QueriesArePure
PROPERTY CacheIsSticky
PROPERTY PureCallsDoNotMaterialise
CHECK_DEADLOCK FALSE
