---------------------------- MODULE MC_ContextSys ----------------------------
(***************************************************************************)
(* Design-level model checking of the context handle state machine         *)
(* (ContextSys.tla): every public call as an action over all tables up to  *)
(* MaxN x MaxM and all argument instances.  Checked: the lazy-lattice      *)
(* cache is coherent with the context in every state, a query never        *)
(* changes the context, the cache is only dropped by copy()/pickling, and  *)
(* - because every action evaluates its response - every response operator *)
(* is defined on its whole domain.                                         *)
(***************************************************************************)
EXTENDS ContextSys

CONSTANTS MaxN, MaxM
Tables == UNION {UNION {{MkCtx(n, m, r) : r \in [1..n -> SUBSET (1..m)]} : m \in 1..MaxM} : n \in 1..MaxN}

Members == DOMAIN Lz.pos
Small(S) == {E \in SUBSET S : Cardinality(E) <= 2}

MCInit == Init
MCNext ==
    \/ \E t \in Tables : New(t)
    \/ /\ K.ok
       /\ \/ \E A \in SUBSET (1..K.v.n) : Intension(A) \/ GetItemO(A) \/ Neighbors(A) \/ LatGetO(A)
          \/ \E B \in SUBSET (1..K.v.m) : Extension(B) \/ GetItemP(B) \/ LatGetP(B) \/ LatCall(B)
          \/ \E w \in {"fast_generate_from", "fcbo_dual", "get_concepts", "iterconcepts"} : Generate(w)
          \/ \E u \in BOOLEAN : Relations(u) \/ \E x \in BOOLEAN : PrintRelations(u, x)
          \/ LatList \/ LatLinks \/ LatOrder \/ LatLabels \/ LatTop \/ Graphviz
          \/ \E i \in 0..(Lz.N - 1) : LatAt(i)
          \/ \E nm \in PredNames : Pred(nm)
          \/ \E x \in Members : Upset(x) \/ Downset(x) \/ Attributes(x) \/ Minimal(x)
          \/ \E E \in Small(Members) : Join(E) \/ Meet(E) \/ UpsetUnion(E) \/ DownsetUnion(E) \/ UpsetGeneralization(E)
          \/ Forget
MCSpec == MCInit /\ [][MCNext]_ctxvars
MCView == <<K, lat>>

TypeOK == /\ K.ok \in BOOLEAN /\ lat.ok \in BOOLEAN
          /\ K.ok => IsCtx(K.v)
          /\ lat.ok => K.ok
(* queries never change the context; only the constructor does *)
QueriesArePure == [][last'.call # "new" => K' = K]_ctxvars
(* once computed the lattice stays cached until the handle is copied / re-created *)
CacheIsSticky == [][(lat.ok /\ last'.call \notin {"new", "copy"}) => lat' = lat]_ctxvars
(* calls that do not need the lattice do not compute it *)
PureCallsDoNotMaterialise ==
    [][last'.call \in {"intension", "extension", "ctx.getitem", "neighbors", "relations", "relations.str",
                       "fast_generate_from", "fcbo_dual", "get_concepts", "iterconcepts"} => lat' = lat]_ctxvars
(* spot laws on responses: a lattice lookup returns the same pair as the context lookup *)
LookupAgrees == (last.call = "lattice.getitem" /\ K.ok) => (lat.ok /\ <<ToSet(last.res[1]), ToSet(last.res[2])>> \in Concepts(K.v))
=============================================================================
