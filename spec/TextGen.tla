------------------------------ MODULE TextGen ------------------------------
(***************************************************************************)
(* Generator machine for C12 (spec -> code): a state is one document - a   *)
(* small table, a choice of labels from the alphabet file, a format and a  *)
(* layout; a step changes one cell, the label offset or the layout.  TLC   *)
(* reaches every combination and prints each once with the text the TLA+   *)
(* writer produces; the harness feeds the text to the library's loaders    *)
(* and TLC validates the loaded triple (TraceText.tla, origin "tla").      *)
(***************************************************************************)
EXTENDS TextFormats, FiniteSets, Json

CONSTANTS MaxN, MaxM
Alph == JsonDeserialize("alphabets.json")
Common == Alph.common
CxtAlph == Alph.common \o Alph.cxt

VARIABLES fmt, n, m, cells, off, lay
gvars == <<fmt, n, m, cells, off, lay>>

Formats == {"table", "cxt", "csv", "csv-int"}
Layouts(f) == IF f = "table"
              THEN {[pad |-> p, indent |-> i, extra |-> x] : p \in {"left", "right", "centre"}, i \in {0, 3}, x \in {0, 2}}
              ELSE IF f \in {"csv", "csv-int"}
              THEN {[pad |-> d, indent |-> 0, extra |-> 0] : d \in {",", "\t"}}
              ELSE {[pad |-> "left", indent |-> 0, extra |-> 0]}
AlphOf(f) == IF f = "table" THEN Common ELSE CxtAlph
Offsets(f) == 0..(Len(AlphOf(f)) - 1)

GInit == /\ fmt \in Formats /\ n \in 1..MaxN /\ m \in 1..MaxM
         /\ cells = {} /\ off = 0 /\ lay \in Layouts(fmt)
GNext == \/ \E i \in 1..n, j \in 1..m : cells' = (IF <<i, j>> \in cells THEN cells \ {<<i, j>>} ELSE cells \cup {<<i, j>>})
                                         /\ UNCHANGED <<fmt, n, m, off, lay>>
         \/ /\ off' = (off + 1) % Len(AlphOf(fmt)) /\ UNCHANGED <<fmt, n, m, cells, lay>>
GSpec == GInit /\ [][GNext]_gvars

Pick(k) == AlphOf(fmt)[((off + k - 1) % Len(AlphOf(fmt))) + 1]
Objs  == [i \in 1..n |-> Pick(i)]
Props == [j \in 1..m |-> Pick(n + j)]
Rows  == [i \in 1..n |-> {j \in 1..m : <<i, j>> \in cells}]
Lines == CASE fmt = "table" -> TableLines(Objs, Props, Rows, lay)
           [] fmt = "cxt"   -> CxtLines(Objs, Props, Rows)
           [] fmt = "csv"   -> CsvLines(Objs, Props, Rows, FALSE, lay.pad, <<"n", "a", "m", "e">>)
           [] fmt = "csv-int" -> CsvLines(Objs, Props, Rows, TRUE, lay.pad, <<>>)

(* distinct labels are needed for a context: the alphabet has no repeats and n + m <= its length *)
LabelsDistinct == Cardinality({Pick(k) : k \in 1..(n + m)}) = n + m
Emit == PrintT(<<"CASE", ToJson([fmt |-> fmt, lay |-> lay, objs |-> [i \in 1..n |-> Cat(Objs[i])],
                                 props |-> [j \in 1..m |-> Cat(Props[j])],
                                 rows |-> [i \in 1..n |-> [j \in 1..m |-> IF <<i, j>> \in cells THEN 1 ELSE 0]],
                                 lines |-> Lines])>>)
=============================================================================
