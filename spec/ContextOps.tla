---------------------------- MODULE ContextOps ----------------------------
(***************************************************************************)
(* Response operators: what each public query of a context / its lattice   *)
(* must return, as a function of the context value K (and its lattice      *)
(* value L = LatticeOf(K)).  Pure operators, shared by the state machine   *)
(* (ContextSys), the trace specifications and the design theorems.         *)
(***************************************************************************)
EXTENDS LatticeOf, Junctors, Drawing

PairSeqs(e, i) == <<SortedSeq(e), SortedSeq(i)>>

(* ---------------------------- responses ------------------------------- *)
R_Intension(k, A) == SortedSeq(Intent(k, A))
R_Extension(k, B) == SortedSeq(Extent(k, B))
R_GetItemO(k, A)  == PairSeqs(CloO(k, A), Intent(k, A))
R_GetItemP(k, B)  == PairSeqs(Extent(k, B), CloP(k, B))
R_Neighbors(k, A) == {PairSeqs(e, Intent(k, e)) : e \in UpperCoverExtents(k, CloO(k, A))}
R_Concepts(k)     == {PairSeqs(c[1], c[2]) : c \in Concepts(k)}

R_List(L)   == [x \in 1..L.N |-> PairSeqs(L.ext[x], L.int[x])]
SeqOfExt(L, s) == [i \in 1..Len(s) |-> SortedSeq(L.ext[s[i]])]
R_Links(L)  == [up |-> [x \in 1..L.N |-> SeqOfExt(L, L.up[x])],
                lo |-> [x \in 1..L.N |-> SeqOfExt(L, L.lo[x])]]
R_Order(L)  == [exts   |-> [x \in 1..L.N |-> SortedSeq(L.ext[x])],
                index  |-> [x \in 1..L.N |-> x - 1],
                dindex |-> [x \in 1..L.N |-> L.dix[x] - 1],
                inf |-> 0, sup |-> L.N - 1, atoms |-> SeqOfExt(L, L.up[1])]
R_Labels(L) == [objects |-> L.olab, properties |-> L.plab,
                atoms |-> [x \in 1..L.N |-> {L.ext[a] : a \in ToSet(L.atoms[x])}],
                kinds |-> [x \in 1..L.N |-> KindOf(L, x)]]

R_Join(k, E) == JoinExtent(k, E)
R_Meet(k, E) == MeetExtent(k, E)

PredHolds(k, name, a, b) ==
    LET all == 1..k.n
    IN  CASE name \in {"le", "implies"}   -> a \subseteq b
          [] name \in {"lt", "properly_implies"}  -> a \subseteq b /\ a # b
          [] name \in {"ge", "subsumes"}  -> b \subseteq a
          [] name \in {"gt", "properly_subsumes"} -> b \subseteq a /\ a # b
          [] name = "incompatible_with" -> a \cap b = {}
          [] name = "complement_of"     -> a \cap b = {} /\ a \cup b = all
          [] name = "subcontrary_with"  -> a \cap b # {} /\ a \cup b = all
          [] name = "orthogonal_to"     -> /\ a \cap b # {} /\ ~ (a \subseteq b) /\ ~ (b \subseteq a)
                                           /\ a \cup b # all
PredNames == {"le", "implies", "lt", "properly_implies", "ge", "subsumes", "gt", "properly_subsumes",
              "incompatible_with", "complement_of", "subcontrary_with", "orthogonal_to"}
R_Pred(k, L, name) == [x \in 1..L.N |-> {L.ext[y] : y \in {y \in 1..L.N : PredHolds(k, name, L.ext[x], L.ext[y])}}]

UpExts(L, E)   == {e \in DOMAIN L.pos : \E s \in E : s \subseteq e}
DownExts(L, E) == {e \in DOMAIN L.pos : \E s \in E : e \subseteq s}
R_UpsetUnion(L, E)   == LET s == SortSets(UpExts(L, E), ShortLess)  IN [i \in 1..Len(s) |-> SortedSeq(s[i])]
R_DownsetUnion(L, E) == LET s == SortSets(DownExts(L, E), LongLess) IN [i \in 1..Len(s) |-> SortedSeq(s[i])]

(* Lattice.upset_generalization (documented as experimental): the members above some seed whose extent stays   *)
(* inside the union T of the seeds' extents, in iteration order; the traversal stops at a member whose extent   *)
(* is T, which - having the largest possible extent - is the last one anyway.  Bound as an observation clause.  *)
GenExts(L, E) == LET T == UNION E IN {e \in UpExts(L, E) : e \subseteq T}
R_UpsetGeneralization(L, E) ==
    LET s == SortSets(GenExts(L, E), ShortLess) IN [i \in 1..Len(s) |-> SortedSeq(s[i])]

(* generating property sets, shortest first then by position = shortlex on positions *)
R_Attributes(k, e) ==
    IF e = {} THEN << SortedSeq(Intent(k, e)) >>
    ELSE LET g == SortSets(GeneratorsLit(k, e), ShortLess)
         IN  [i \in 1..Len(g) |-> SortedSeq(g[i])]
(* the infimum's minimal() is its full intent, every other concept's is the first generator *)
R_Minimal(k, e) == IF e = BottomExtent(k) THEN SortedSeq(Intent(k, e)) ELSE R_Attributes(k, e)[1]

R_Relations(k, unary) == RelationsSeq(k, unary)
R_Printed(k, unary, excl) == PrintedSeq(k, unary, excl)

R_Drawing(L) == [nodes |-> Nodes(L), edges |-> EdgeSet(L),
                 olab |-> [x \in ObjLabelled(L) |-> L.olab[x + 1]],
                 plab |-> [x \in PropLabelled(L) |-> L.plab[x + 1]]]

=============================================================================
