SPECIFICATION DSpec
CONSTANT ONames <- TONames
CONSTANT PNames <- TPNames
CONSTANT MaxList = 2
CONSTANT Others <- TOthers
CONSTANT EmitDepth = 12
CONSTANT EmitOneIn = 40
INVARIANT DWF
INVARIANT EmitHist
CHECK_DEADLOCK FALSE
