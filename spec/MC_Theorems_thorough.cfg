SPECIFICATION TSpec
CONSTANT Shapes <- ShapesThorough
INVARIANT TypeOK
INVARIANT ThGalois
INVARIANT ThAntitone
INVARIANT ThEmpty
INVARIANT ThClosure
INVARIANT ThLeastConcept
INVARIANT ThConcepts
INVARIANT ThExtentsUnique
INVARIANT ThCovers
INVARIANT ThLinks
INVARIANT ThOrder
INVARIANT ThJoinMeet
INVARIANT ThLatticeLaws
INVARIANT ThPredicates
INVARIANT ThTraversal
INVARIANT ThGeneralization
INVARIANT ThLabels
INVARIANT ThJunctors
INVARIANT ThGenerators
INVARIANT ThRawPermutation
INVARIANT ThTranspose
INVARIANT ThDuplicate
INVARIANT ThPermute
CHECK_DEADLOCK FALSE
