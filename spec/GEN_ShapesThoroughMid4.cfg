SPECIFICATION GSpec
CONSTANT Shapes <- ShapesThoroughMid4
INVARIANT WellFormed
INVARIANT Emit
CHECK_DEADLOCK FALSE
