------------------------------ MODULE TraceDet ------------------------------
(***************************************************************************)
(* Joint validation of K traces of the same call sequence recorded in K    *)
(* interpreter processes with different PYTHONHASHSEED values (C17).       *)
(* Event i carries the K call signatures and the K textual observations    *)
(* of call i (memory addresses masked).  Every result of the library is a  *)
(* function of its inputs and the call history (that is what every         *)
(* response operator and Apply() of the specification are), so the K       *)
(* observations must be one and the same value.                            *)
(***************************************************************************)
EXTENDS Naturals, Sequences, TLC, Json, IOUtils

VARIABLE l
Log == ndJsonDeserialize(IOEnv.TRACE_FILE)
e == Log[l]
Clause(name, ok) == IF ok THEN TRUE ELSE PrintT(<<"MISMATCH", l, Log[l].b, Log[l].ev, name>>)
AllSame(s) == \A i \in 1..Len(s) : s[i] = s[1]

TrDet == /\ l <= Len(Log) /\ e.ev = "det" /\ l' = l + 1
         /\ Clause("C17.samecall", AllSame(e.calls))
         /\ Clause("C17.sameobservation", AllSame(e.obs))
TrDone == l = Len(Log) + 1 /\ l' = l + 1 /\ PrintT(<<"DONE", Len(Log)>>)
TraceInit == l = 1
TraceNext == TrDet \/ TrDone
TraceSpec == TraceInit /\ [][TraceNext]_l
=============================================================================
