SPECIFICATION ISpec
CONSTANT ONames <- TONames
CONSTANT PNames <- TPNames
CONSTANT MaxList = 2
CONSTANT Others <- QOthers
VIEW IView
INVARIANT RepresentationInvariant
INVARIANT Refines
CHECK_DEADLOCK FALSE
