SPECIFICATION MCSpec
CONSTANT MaxN = 2
CONSTANT MaxM = 2
VIEW MCView
INVARIANT TypeOK
INVARIANT CacheCoherent
INVARIANT LookupAgrees
PROPERTY QueriesArePure
PROPERTY CacheIsSticky
PROPERTY PureCallsDoNotMaterialise
CHECK_DEADLOCK FALSE
