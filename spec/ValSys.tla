------------------------------- MODULE ValSys -------------------------------
(***************************************************************************)
(* Generator machine for C19 (spec -> code): the state is one constructor  *)
(* input; a step applies one corruption.  From every valid seed TLC        *)
(* reaches every single and double corruption (MaxDepth = 2); each         *)
(* distinct input is printed once as JSON and fed to the real constructor  *)
(* by the harness, whose recorded outcomes are then validated against      *)
(* Validation.tla (TraceVal.tla).                                          *)
(***************************************************************************)
EXTENDS Validation, Json

CONSTANTS Kind, MaxN, MaxM, MaxDepth
VARIABLES val, depth

VInit == /\ depth = 0
         /\ IF Kind = "triple" THEN val \in SeedTriples(MaxN, MaxM) ELSE val \in SeedDocs(MaxN, MaxM)
VNext == /\ depth < MaxDepth
         /\ depth' = depth + 1
         /\ val' \in (IF Kind = "triple" THEN TripleCorruptions(val) ELSE DocCorruptions(val))
VSpec == VInit /\ [][VNext]_<<val, depth>>
VView == val

Outcome == IF Kind = "triple" THEN TripleOutcome(val) ELSE DocOutcome(val)
(* every seed is a valid input *)
SeedsValid == depth = 0 => Outcome = "ok"
(* the two predicates agree on the part they share: a well-formed document describes a well-formed triple *)
DocImpliesTriple ==
    (Kind = "doc" /\ DocOK(val)) =>
        TripleOK([objs |-> val.objs, props |-> val.props,
                  rows |-> [i \in 1..Len(val.ctx) |-> [j \in 1..Len(val.props) |->
                               IF (j - 1) \in Rg(val.ctx[i]) THEN 1 ELSE 0]]])
(* evaluated once per distinct input: print it for the harness *)
Emit == PrintT(<<"CASE", ToJson([kind |-> Kind, depth |-> depth, val |-> val])>>)
=============================================================================
