SPECIFICATION ISpec
CONSTANT ONames <- QONames
CONSTANT PNames <- QPNames
CONSTANT MaxList = 2
CONSTANT Others <- QOthers
VIEW IView
INVARIANT RepresentationInvariant
INVARIANT Refines
CHECK_DEADLOCK FALSE
