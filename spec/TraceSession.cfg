SPECIFICATION TraceSpec
CONSTANT H = 3
CONSTANT NTables = 3
CONSTANT EmitDepth = 0
CONSTANT EmitOneIn = 1
CHECK_DEADLOCK FALSE
