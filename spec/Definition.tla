----------------------------- MODULE Definition -----------------------------
(***************************************************************************)
(* The ordered-table model of a Definition (C13, C14): two ordered,        *)
(* duplicate-free name lists and a set of true cells.                      *)
(*                                                                         *)
(*   d == [objs |-> Seq(Name), props |-> Seq(Name), cells |-> SUBSET ...]  *)
(*                                                                         *)
(* Apply(d, c, oth) gives, for a call record c (as logged by the recorder  *)
(* or enumerated by TLC), the outcome ("ok" or the exception class), the   *)
(* return value and the successor value (unchanged on error).  Derive      *)
(* gives the value of a derived definition.  Names are strings.            *)
(***************************************************************************)
EXTENDS Naturals, FiniteSets, Sequences, SequencesExt, TLC

Rng(s) == {s[i] : i \in 1..Len(s)}
NoDups(s) == \A i, j \in 1..Len(s) : i # j => s[i] # s[j]

WF(d) == /\ NoDups(d.objs) /\ NoDups(d.props)
         /\ d.cells \subseteq Rng(d.objs) \X Rng(d.props)

Empty == [objs |-> <<>>, props |-> <<>>, cells |-> {}]
Mk(objs, props, cells) == [objs |-> objs, props |-> props, cells |-> cells]

(* new names appended in the order given, names already present keep their place *)
RECURSIVE AppendNew(_, _)
AppendNew(s, ns) == IF ns = <<>> THEN s
                    ELSE AppendNew(IF Head(ns) \in Rng(s) THEN s ELSE Append(s, Head(ns)), Tail(ns))
Dedup(ns) == AppendNew(<<>>, ns)
Without(s, x) == SelectSeq(s, LAMBDA y : y # x)
Keep(s, S)    == SelectSeq(s, LAMBDA y : y \in S)
Drop(s, S)    == SelectSeq(s, LAMBDA y : y \notin S)
ReplaceIn(s, old, new) == [i \in 1..Len(s) |-> IF s[i] = old THEN new ELSE s[i]]
(* list.pop(index of x) followed by list.insert(idx, x); idx is 0-based *)
MoveTo(s, x, idx) == LET t == Without(s, x)
                         k == IF idx > Len(t) THEN Len(t) ELSE idx
                     IN  SubSeq(t, 1, k) \o <<x>> \o SubSeq(t, k + 1, Len(t))

(* return values are tagged so that values of different shape stay comparable *)
None == [k |-> "none"]
ListRet(s) == [k |-> "list", v |-> s]
Ok(d, ret)   == [out |-> "ok", ret |-> ret, d |-> d]
Err(d, cls)  == [out |-> cls, ret |-> None, d |-> d]

(* cells of the shared sub-table on which two definitions disagree *)
Conflicts(d, o) ==
    LET so == Rng(d.objs) \cap Rng(o.objs)
        sp == Rng(d.props) \cap Rng(o.props)
    IN  {c \in so \X sp : (c \in d.cells) # (c \in o.cells)}

EmptyObjs(d)  == SelectSeq(d.objs, LAMBDA o : ~ \E c \in d.cells : c[1] = o)
EmptyProps(d) == SelectSeq(d.props, LAMBDA p : ~ \E c \in d.cells : c[2] = p)

Apply(d, c, oth) ==
    CASE c.op = "setitem" ->
           Ok(Mk(AppendNew(d.objs, <<c.o>>), AppendNew(d.props, <<c.p>>),
                 IF c.v THEN d.cells \cup {<<c.o, c.p>>} ELSE d.cells \ {<<c.o, c.p>>}), None)
      [] c.op = "add_object" ->
           Ok(Mk(AppendNew(d.objs, <<c.o>>), AppendNew(d.props, c.names),
                 d.cells \cup {<<c.o, p>> : p \in Rng(c.names)}), None)
      [] c.op = "add_property" ->
           Ok(Mk(AppendNew(d.objs, c.names), AppendNew(d.props, <<c.p>>),
                 d.cells \cup {<<o, c.p>> : o \in Rng(c.names)}), None)
      [] c.op = "set_object" ->
           Ok(Mk(AppendNew(d.objs, <<c.o>>), AppendNew(d.props, c.names),
                 {x \in d.cells : x[1] # c.o} \cup {<<c.o, p>> : p \in Rng(c.names)}), None)
      [] c.op = "set_property" ->
           Ok(Mk(AppendNew(d.objs, c.names), AppendNew(d.props, <<c.p>>),
                 {x \in d.cells : x[2] # c.p} \cup {<<o, c.p>> : o \in Rng(c.names)}), None)
      [] c.op = "remove_object" ->
           IF c.o \notin Rng(d.objs) THEN Err(d, "KeyError")
           ELSE Ok(Mk(Without(d.objs, c.o), d.props, {x \in d.cells : x[1] # c.o}), None)
      [] c.op = "remove_property" ->
           IF c.p \notin Rng(d.props) THEN Err(d, "KeyError")
           ELSE Ok(Mk(d.objs, Without(d.props, c.p), {x \in d.cells : x[2] # c.p}), None)
      [] c.op = "rename_object" ->
           IF c.new \in Rng(d.objs) \/ c.old \notin Rng(d.objs) THEN Err(d, "ValueError")
           ELSE Ok(Mk(ReplaceIn(d.objs, c.old, c.new), d.props,
                      {<<IF x[1] = c.old THEN c.new ELSE x[1], x[2]>> : x \in d.cells}), None)
      [] c.op = "rename_property" ->
           IF c.new \in Rng(d.props) \/ c.old \notin Rng(d.props) THEN Err(d, "ValueError")
           ELSE Ok(Mk(d.objs, ReplaceIn(d.props, c.old, c.new),
                      {<<x[1], IF x[2] = c.old THEN c.new ELSE x[2]>> : x \in d.cells}), None)
      [] c.op = "move_object" ->
           IF c.o \notin Rng(d.objs) THEN Err(d, "ValueError")
           ELSE Ok(Mk(MoveTo(d.objs, c.o, c.idx), d.props, d.cells), None)
      [] c.op = "move_property" ->
           IF c.p \notin Rng(d.props) THEN Err(d, "ValueError")
           ELSE Ok(Mk(d.objs, MoveTo(d.props, c.p, c.idx), d.cells), None)
      [] c.op = "remove_empty_objects" ->
           LET gone == EmptyObjs(d) IN Ok(Mk(Drop(d.objs, Rng(gone)), d.props, d.cells), ListRet(gone))
      [] c.op = "remove_empty_properties" ->
           LET gone == EmptyProps(d) IN Ok(Mk(d.objs, Drop(d.props, Rng(gone)), d.cells), ListRet(gone))
      [] c.op \in {"union_update", "ior"} ->
           IF ~ c.ignore /\ Conflicts(d, oth) # {} THEN Err(d, "ValueError")
           ELSE Ok(Mk(AppendNew(d.objs, oth.objs), AppendNew(d.props, oth.props), d.cells \cup oth.cells), None)
      [] c.op \in {"intersection_update", "iand"} ->
           IF ~ c.ignore /\ Conflicts(d, oth) # {} THEN Err(d, "ValueError")
           ELSE Ok(Mk(Keep(d.objs, Rng(oth.objs)), Keep(d.props, Rng(oth.props)), d.cells \cap oth.cells), None)

Mutators == {"setitem", "add_object", "add_property", "set_object", "set_property", "remove_object",
             "remove_property", "rename_object", "rename_property", "move_object", "move_property",
             "remove_empty_objects", "remove_empty_properties", "union_update", "intersection_update",
             "ior", "iand"}

(* ----------------------------- derivations ----------------------------- *)
SubTable(d, objs, props) == Mk(objs, props, d.cells \cap (Rng(objs) \X Rng(props)))
Transposed(d) == Mk(d.props, d.objs, {<<x[2], x[1]>> : x \in d.cells})
Inverted(d)   == Mk(d.objs, d.props, (Rng(d.objs) \X Rng(d.props)) \ d.cells)

(* c.objects / c.properties: [given |-> BOOLEAN, names |-> Seq] *)
Take(d, c) ==
    LET og == c.objects.given   on == c.objects.names
        pg == c.properties.given  pn == c.properties.names
        bad == (og /\ on # <<>> /\ ~ (Rng(on) \subseteq Rng(d.objs)))
               \/ (pg /\ pn # <<>> /\ ~ (Rng(pn) \subseteq Rng(d.props)))
        missing == Dedup(SelectSeq(IF og THEN on ELSE <<>>, LAMBDA x : x \notin Rng(d.objs))
                         \o SelectSeq(IF pg THEN pn ELSE <<>>, LAMBDA x : x \notin Rng(d.props)))
        objs  == IF ~ og THEN d.objs ELSE IF c.reorder THEN Dedup(on) ELSE Keep(d.objs, Rng(on))
        props == IF ~ pg THEN d.props ELSE IF c.reorder THEN Dedup(pn) ELSE Keep(d.props, Rng(pn))
    IN  IF bad THEN [out |-> "KeyError", ret |-> ListRet(missing), d |-> Empty]
        ELSE [out |-> "ok", ret |-> None, d |-> SubTable(d, objs, props)]

Derive(d, c, oth) ==
    CASE c.op = "copy"       -> Ok(d, None)
      [] c.op \in {"transposed", "neg"} -> Ok(Transposed(d), None)
      [] c.op \in {"inverted", "invert"} -> Ok(Inverted(d), None)
      [] c.op = "take"       -> Take(d, c)
      [] c.op \in {"union", "or"} ->
           LET r == Apply(d, [op |-> "union_update", ignore |-> c.ignore], oth)
           IN  IF r.out = "ok" THEN r ELSE [out |-> r.out, ret |-> None, d |-> Empty]
      [] c.op \in {"intersection", "and"} ->
           LET r == Apply(d, [op |-> "intersection_update", ignore |-> c.ignore], oth)
           IN  IF r.out = "ok" THEN r ELSE [out |-> r.out, ret |-> None, d |-> Empty]
Derivations == {"copy", "transposed", "neg", "inverted", "invert", "take", "union", "or", "intersection", "and"}

(* ------------------------- Context <-> Definition ---------------------- *)
(* the context built from d is defined iff both name lists are non-empty and disjoint    *)
CtxWF(d) == d.objs # <<>> /\ d.props # <<>> /\ Rng(d.objs) \cap Rng(d.props) = {}
FreezeOutcome(d) == IF CtxWF(d) THEN "ok" ELSE "ValueError"
Shape(d) == <<Len(d.objs), Len(d.props)>>
FillRatio(d) == <<Cardinality(d.cells), Len(d.objs) * Len(d.props)>>      \* numerator / denominator, unreduced
(* the same table as a context value of FCA.tla (positions) *)
PosOf(s, x) == CHOOSE i \in 1..Len(s) : s[i] = x
RowsOf(d) == [i \in 1..Len(d.objs) |-> {j \in 1..Len(d.props) : <<d.objs[i], d.props[j]>> \in d.cells}]
=============================================================================
