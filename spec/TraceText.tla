------------------------------ MODULE TraceText ------------------------------
(***************************************************************************)
(* Trace specification for the text formats (C12).                         *)
(*                                                                         *)
(* State: the context under test as labels + table (st).  Labels matter    *)
(* here (delimiters of the other formats, quotes, non-ASCII ...), so they  *)
(* are part of the state as strings.  TLC cannot parse text; the emitted   *)
(* text is projected by independent readers written from the format        *)
(* descriptions (harness/textreaders.py), and the specification judges the *)
(* abstract triple:  Load(Dump(x)) = x,  Read(Dump(x)) = x,                *)
(* Load(Write(x)) = x  where Write is the independent writer (Python, for  *)
(* every layout / dialect) or the TLA+ writer of TextFormats.tla.          *)
(***************************************************************************)
EXTENDS Documents, Json, IOUtils

VARIABLES st, l
vars == <<st, l>>
Log == ndJsonDeserialize(IOEnv.TRACE_FILE)
e == Log[l]
IsEv(name) == l <= Len(Log) /\ Log[l].ev = name /\ l' = l + 1
Clause(name, ok) == IF ok THEN TRUE ELSE PrintT(<<"MISMATCH", l, Log[l].b, Log[l].ev, name>>)

CellSet(rows) == UNION {{<<i, p>> : p \in ToSet(rows[i])} : i \in 1..Len(rows)}
SameTriple(x) == /\ x.objs = st.objs /\ x.props = st.props
                 /\ ToSet(x.cells) = CellSet(st.rows)

TrNew == /\ IsEv("t.new")
         /\ st' = [objs |-> e.objs, props |-> e.props, rows |-> e.rows]

(* the library's own text, read by the independent reader *)
TrDump == /\ IsEv("t.dump")
          /\ Clause("C12." \o e.fmt \o ".dump.outcome", e.out = "ok")
          /\ Clause("C12." \o e.fmt \o ".layout", e.out # "ok" \/ (e.rd_ok /\ SameTriple(e)))
          /\ UNCHANGED st

(* text loaded by the library: its own dump, the independent writer's text, or the TLA+ writer's *)
TrLoad == /\ IsEv("t.load")
          /\ Clause("C12." \o e.fmt \o ".load.outcome." \o e.origin, e.out = "ok")
          /\ Clause("C12." \o e.fmt \o ".roundtrip." \o e.origin, e.out # "ok" \/ (SameTriple(e) /\ e.eq))
          /\ UNCHANGED st

(* index-based exports: FIMI rows list exactly the true cells; .dat rows the members of each concept *)
TrIndex == /\ IsEv("t.index")
           /\ Clause("C12." \o e.fmt \o ".outcome", e.out = "ok")
           /\ Clause("C12." \o e.fmt \o ".rows",
                     e.out # "ok" \/ IF e.fmt = "fimi"
                                    THEN e.rows = [i \in 1..Len(st.rows) |-> Zero(SortedSeq(ToSet(st.rows[i])))]
                                    ELSE e.rows = e.members)
           /\ Clause("C12." \o e.fmt \o ".readback", e.out # "ok" \/ e.readback = e.rows)
           /\ UNCHANGED st

(* consistency of the two independent writers (TLA+ and Python): a disagreement is a fault of the
   machinery, not of the library *)
TrAgree == IsEv("t.agree") /\ Clause("machinery.writers.agree." \o e.fmt, e.agree) /\ UNCHANGED st

TrCrash == IsEv("crash") /\ Clause(e.prop \o ".raises." \o e.exc, FALSE) /\ UNCHANGED st
TrDone == l = Len(Log) + 1 /\ l' = l + 1 /\ PrintT(<<"DONE", Len(Log)>>) /\ UNCHANGED st

TraceInit == st = [objs |-> <<>>, props |-> <<>>, rows |-> <<>>] /\ l = 1
TraceNext == TrNew \/ TrDump \/ TrLoad \/ TrIndex \/ TrAgree \/ TrCrash \/ TrDone
TraceSpec == TraceInit /\ [][TraceNext]_vars
=============================================================================
