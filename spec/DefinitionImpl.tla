--------------------------- MODULE DefinitionImpl ---------------------------
(***************************************************************************)
(* Code-shaped refinement of Definition.tla: the representation the        *)
(* implementation actually uses - two `Unique` collections, each an item   *)
(* LIST plus a membership SET that are updated separately, and a raw set   *)
(* of (object, property) pairs - with each mutator transcribed in the      *)
(* statement order of definitions.py / tools.py, including the point at    *)
(* which it can raise.                                                     *)
(*                                                                         *)
(*   s == [oI, oS, pI, pS, pr]                                             *)
(*                                                                         *)
(* TLC checks, over every reachable representation state of a bounded      *)
(* name universe and every call instance, that                             *)
(*   - the representation invariant holds (membership set = items, pairs   *)
(*     only over present names): no residue of removed / renamed names;    *)
(*   - the step is the abstract step: Abs(Impl(s, c)) = Apply(Abs(s), c)   *)
(*     with the same outcome and return value (refinement), in particular  *)
(*     a raising call has not mutated anything before it raised.           *)
(* The first round-1 seeded change for C13 (a rejected rename leaving the  *)
(* new name in the membership set) is exactly a violation of ImplInv that  *)
(* the abstract triple cannot show until a later call.                     *)
(***************************************************************************)
EXTENDS Definition

CONSTANTS ONames, PNames, MaxList, Others
VARIABLES s, ilast
ivars == <<s, ilast>>

Abs(x) == Mk(x.oI, x.pI, x.pr)
Rep(d) == [oI |-> d.objs, oS |-> Rng(d.objs), pI |-> d.props, pS |-> Rng(d.props), pr |-> d.cells]
ImplInv(x) == /\ x.oS = Rng(x.oI) /\ x.pS = Rng(x.pI)
              /\ NoDups(x.oI) /\ NoDups(x.pI)
              /\ x.pr \subseteq x.oS \X x.pS

(* ---- tools.Unique, as [I |-> items, S |-> seen] ---- *)
UAdd(u, x) == IF x \in u.S THEN u ELSE [I |-> Append(u.I, x), S |-> u.S \cup {x}]
RECURSIVE UIor(_, _)                        \* __ior__: for value in it: self.add(value)
UIor(u, it) == IF it = <<>> THEN u ELSE UIor(UAdd(u, Head(it)), Tail(it))
UDiscard(u, x) == IF x \in u.S THEN [I |-> Without(u.I, x), S |-> u.S \ {x}] ELSE u
RECURSIVE UDiscardAll(_, _)
UDiscardAll(u, it) == IF it = <<>> THEN u ELSE UDiscardAll(UDiscard(u, Head(it)), Tail(it))
UIand(u, keep) == UDiscardAll(u, SelectSeq(u.I, LAMBDA x : x \notin keep))     \* for value in (self - it): discard
O(x) == [I |-> x.oI, S |-> x.oS]
P(x) == [I |-> x.pI, S |-> x.pS]
With(x, o, p, pr) == [oI |-> o.I, oS |-> o.S, pI |-> p.I, pS |-> p.S, pr |-> pr]

IOk(x, ret)  == [out |-> "ok", ret |-> ret, s |-> x]
IErr(x, cls) == [out |-> cls, ret |-> None, s |-> x]

Impl(x, c, oth) ==
    CASE c.op = "setitem" ->      \* objects.add(o); properties.add(p); pairs.add / discard
           IOk(With(x, UAdd(O(x), c.o), UAdd(P(x), c.p),
                    IF c.v THEN x.pr \cup {<<c.o, c.p>>} ELSE x.pr \ {<<c.o, c.p>>}), None)
      [] c.op = "add_object" ->   \* objects.add(obj); properties |= properties; pairs.update(...)
           IOk(With(x, UAdd(O(x), c.o), UIor(P(x), c.names), x.pr \cup {<<c.o, p>> : p \in Rng(c.names)}), None)
      [] c.op = "add_property" ->
           IOk(With(x, UIor(O(x), c.names), UAdd(P(x), c.p), x.pr \cup {<<o, c.p>> : o \in Rng(c.names)}), None)
      [] c.op = "set_object" ->   \* add(obj); properties |= properties; for p in self._properties: add / discard
           LET p2 == UIor(P(x), c.names)
           IN  IOk(With(x, UAdd(O(x), c.o), p2,
                        (x.pr \ {<<c.o, p>> : p \in Rng(p2.I)}) \cup {<<c.o, p>> : p \in Rng(p2.I) \cap Rng(c.names)}), None)
      [] c.op = "set_property" ->
           LET o2 == UIor(O(x), c.names)
           IN  IOk(With(x, o2, UAdd(P(x), c.p),
                        (x.pr \ {<<o, c.p>> : o \in Rng(o2.I)}) \cup {<<o, c.p>> : o \in Rng(o2.I) \cap Rng(c.names)}), None)
      [] c.op = "remove_object" ->   \* MutableSet.remove: KeyError if absent, else discard; then difference_update
           IF c.o \notin x.oS THEN IErr(x, "KeyError")
           ELSE IOk(With(x, UDiscard(O(x), c.o), P(x), x.pr \ {<<c.o, p>> : p \in Rng(x.pI)}), None)
      [] c.op = "remove_property" ->
           IF c.p \notin x.pS THEN IErr(x, "KeyError")
           ELSE IOk(With(x, O(x), UDiscard(P(x), c.p), x.pr \ {<<o, c.p>> : o \in Rng(x.oI)}), None)
      [] c.op = "rename_object" ->   \* Unique.replace: new in seen -> ValueError; items.index(old) -> ValueError;
                                     \* then seen.remove(old); seen.add(new); items[idx] = new; then pairs moved
           IF c.new \in x.oS THEN IErr(x, "ValueError")
           ELSE IF c.old \notin Rng(x.oI) THEN IErr(x, "ValueError")
           ELSE IOk(With(x, [I |-> ReplaceIn(x.oI, c.old, c.new), S |-> (x.oS \ {c.old}) \cup {c.new}], P(x),
                         {q \in x.pr : q[1] # c.old} \cup {<<c.new, p>> : p \in {p \in Rng(x.pI) : <<c.old, p>> \in x.pr}}), None)
      [] c.op = "rename_property" ->
           IF c.new \in x.pS THEN IErr(x, "ValueError")
           ELSE IF c.old \notin Rng(x.pI) THEN IErr(x, "ValueError")
           ELSE IOk(With(x, O(x), [I |-> ReplaceIn(x.pI, c.old, c.new), S |-> (x.pS \ {c.old}) \cup {c.new}],
                         {q \in x.pr : q[2] # c.old} \cup {<<o, c.new>> : o \in {o \in Rng(x.oI) : <<o, c.old>> \in x.pr}}), None)
      [] c.op = "move_object" ->     \* items.index -> ValueError; pop + insert (seen untouched)
           IF c.o \notin Rng(x.oI) THEN IErr(x, "ValueError")
           ELSE IOk(With(x, [I |-> MoveTo(x.oI, c.o, c.idx), S |-> x.oS], P(x), x.pr), None)
      [] c.op = "move_property" ->
           IF c.p \notin Rng(x.pI) THEN IErr(x, "ValueError")
           ELSE IOk(With(x, O(x), [I |-> MoveTo(x.pI, c.p, c.idx), S |-> x.pS], x.pr), None)
      [] c.op = "remove_empty_objects" ->   \* nonempty = {o for o, _ in pairs}; remove each empty one
           LET gone == SelectSeq(x.oI, LAMBDA o : ~ \E q \in x.pr : q[1] = o)
           IN  IOk(With(x, UDiscardAll(O(x), gone), P(x), x.pr), ListRet(gone))
      [] c.op = "remove_empty_properties" ->
           LET gone == SelectSeq(x.pI, LAMBDA p : ~ \E q \in x.pr : q[2] = p)
           IN  IOk(With(x, O(x), UDiscardAll(P(x), gone), x.pr), ListRet(gone))
      [] c.op \in {"union_update", "ior"} ->  \* ensure_compatible first, then three in-place updates
           LET shared == (x.oS \cap oth.oS) \X (x.pS \cap oth.pS)
               conflicts == {q \in shared : (q \in x.pr) # (q \in oth.pr)}
           IN  IF ~ c.ignore /\ conflicts # {} THEN IErr(x, "ValueError")
               ELSE IOk(With(x, UIor(O(x), oth.oI), UIor(P(x), oth.pI), x.pr \cup oth.pr), None)
      [] c.op \in {"intersection_update", "iand"} ->
           LET shared == (x.oS \cap oth.oS) \X (x.pS \cap oth.pS)
               conflicts == {q \in shared : (q \in x.pr) # (q \in oth.pr)}
           IN  IF ~ c.ignore /\ conflicts # {} THEN IErr(x, "ValueError")
               ELSE IOk(With(x, UIand(O(x), oth.oS), UIand(P(x), oth.pS), x.pr \cap oth.pr), None)

(* ---- the machine: same call universe as DefSys ---- *)
Lists(S) == UNION {[1..k -> S] : k \in 0..MaxList}
ICalls(cur) ==
       {[op |-> "setitem", o |-> o, p |-> p, v |-> v] : o \in ONames, p \in PNames, v \in BOOLEAN}
  \cup {[op |-> op, o |-> o, names |-> ns] : op \in {"add_object", "set_object"}, o \in ONames, ns \in Lists(PNames)}
  \cup {[op |-> op, p |-> p, names |-> ns] : op \in {"add_property", "set_property"}, p \in PNames, ns \in Lists(ONames)}
  \cup {[op |-> "remove_object", o |-> o] : o \in ONames} \cup {[op |-> "remove_property", p |-> p] : p \in PNames}
  \cup {[op |-> "rename_object", old |-> a, new |-> b] : a \in ONames, b \in ONames}
  \cup {[op |-> "rename_property", old |-> a, new |-> b] : a \in PNames, b \in PNames}
  \cup {[op |-> "move_object", o |-> o, idx |-> i] : o \in ONames, i \in 0..(IF Len(cur.oI) = 0 THEN 0 ELSE Len(cur.oI) - 1)}
  \cup {[op |-> "move_property", p |-> p, idx |-> i] : p \in PNames, i \in 0..(IF Len(cur.pI) = 0 THEN 0 ELSE Len(cur.pI) - 1)}
  \cup {[op |-> "remove_empty_objects"], [op |-> "remove_empty_properties"]}
  \cup {[op |-> op, other |-> k, ignore |-> g] : op \in {"union_update", "intersection_update"},
                                                  k \in 1..Len(Others), g \in BOOLEAN}
OthRep(c) == IF "other" \in DOMAIN c THEN Rep(Others[c.other]) ELSE Rep(Empty)
OthAbs(c) == IF "other" \in DOMAIN c THEN Others[c.other] ELSE Empty

IInit == s = Rep(Empty) /\ ilast = [ok |-> TRUE]
INext == \E c \in ICalls(s) :
            LET r == Impl(s, c, OthRep(c))
                a == Apply(Abs(s), c, OthAbs(c))
            IN  /\ s' = r.s
                /\ ilast' = [ok |-> (Abs(r.s) = a.d /\ r.out = a.out /\ r.ret = a.ret)]
ISpec == IInit /\ [][INext]_ivars
IView == s

RepresentationInvariant == ImplInv(s)
(* every step of the representation is the abstract step: DefinitionImpl refines Definition *)
Refines == ilast.ok
=============================================================================
