------------------------------ MODULE TraceDef ------------------------------
(***************************************************************************)
(* Trace specification for Definition histories (C13), derivations,        *)
(* aliasing and the Context <-> Definition correspondence (C14).           *)
(*                                                                         *)
(*   ds : handle |-> definition value (every live Definition object)       *)
(*   cs : handle |-> definition value a live Context was built from        *)
(*                                                                         *)
(* Every event logs the projected state of EVERY live definition handle    *)
(* after the call (post), so a change to a handle the call did not name    *)
(* (shared mutable state) is seen by the Frame clause.                     *)
(***************************************************************************)
EXTENDS Definition, Json, IOUtils

VARIABLES ds, cs, l
vars == <<ds, cs, l>>

Log == ndJsonDeserialize(IOEnv.TRACE_FILE)
e == Log[l]
IsEv(name) == l <= Len(Log) /\ Log[l].ev = name /\ l' = l + 1
Clause(name, ok) == IF ok THEN TRUE ELSE PrintT(<<"MISMATCH", l, Log[l].b, Log[l].ev, name>>)

ToDef(r) == Mk(r.objs, r.props, ToSet(r.cells))
PostOf(h) == LET i == CHOOSE i \in 1..Len(e.post) : e.post[i].h = h IN ToDef(e.post[i])
PostHas(h) == \E i \in 1..Len(e.post) : e.post[i].h = h
Live == DOMAIN ds
(* every other live handle still has the value the specification holds for it *)
Frame(changed) == \A h \in Live \ changed : PostHas(h) /\ PostOf(h) = ds[h]
OthOf(c) == IF "other" \in DOMAIN c /\ c.other \in Live THEN ds[c.other] ELSE Empty
Set(f, h, v) == (h :> v) @@ f
(* the next state is the LOGGED state of every live handle (so one wrong step does not
   cascade); each clause compares it with what the specification prescribes *)
Adopt == [h \in {e.post[i].h : i \in 1..Len(e.post)} |-> PostOf(h)]
PostWF == \A h \in DOMAIN Adopt : WF(Adopt[h])

TrReset == /\ IsEv("reset")
           /\ ds' = <<>> /\ cs' = <<>>

TrDefNew ==
    /\ IsEv("def.new")
    /\ LET v == ToDef(e.given)
       IN  /\ ds' = Adopt
           /\ Clause("C13.new.outcome", e.out = "ok")
           /\ Clause("C13.new.state", PostHas(e.h) /\ PostOf(e.h) = v)
           /\ Clause("C14.new.frame", Frame({e.h}))
    /\ UNCHANGED cs

(* harness device, not a library call: a second handle on an independent deep copy *)
TrFork == /\ IsEv("def.fork")
          /\ ds' = Set(ds, e.new, ds[e.h])
          /\ UNCHANGED cs

TrDrop == /\ IsEv("def.drop")
          /\ ds' = [h \in DOMAIN ds \ {e.h} |-> ds[h]]
          /\ UNCHANGED cs

TrDefOp ==
    /\ IsEv("def.op")
    /\ IF e.h \in Live /\ e.c.op \in Mutators
       THEN LET r == Apply(ds[e.h], e.c, OthOf(e.c))
            IN  /\ ds' = Adopt
                /\ Clause("C13." \o e.c.op \o ".wf", PostWF)
                /\ Clause("C13." \o e.c.op \o ".outcome", e.out = r.out)
                /\ Clause("C13." \o e.c.op \o ".return", e.out # "ok" \/ e.ret = r.ret)
                /\ Clause("C13." \o e.c.op \o ".state", PostHas(e.h) /\ PostOf(e.h) = r.d)
                /\ Clause("C13." \o e.c.op \o ".fresh", e.fresh_eq)
                /\ Clause("C13." \o e.c.op \o ".rows", e.shape_ok)
                (* shape and fill_ratio of the live object after the call (read after EVERY call) *)
                /\ Clause("C14." \o e.c.op \o ".shape", e.dshape = Shape(r.d))
                /\ Clause("C14." \o e.c.op \o ".fill_ratio",
                          e.dshape[1] * e.dshape[2] = 0 \/ e.dfill[1] * FillRatio(r.d)[2] = FillRatio(r.d)[1] * e.dfill[2])
                /\ Clause("C14." \o e.c.op \o ".frame", Frame({e.h}))
                (* the same condition as a clause of C13: every OTHER definition's own history contains no
                   edit here, so its triple must still be what its model says *)
                /\ Clause("C13." \o e.c.op \o ".others_unchanged", Frame({e.h}))
       ELSE Clause("domain", FALSE) /\ UNCHANGED ds
    /\ UNCHANGED cs

TrDefDerive ==
    /\ IsEv("def.derive")
    /\ IF e.h \in Live /\ e.c.op \in Derivations
       THEN LET r == Derive(ds[e.h], e.c, OthOf(e.c))
            IN  /\ ds' = Adopt
                /\ Clause("C14." \o e.c.op \o ".wf", PostWF)
                /\ Clause("C14." \o e.c.op \o ".outcome",
                          IF r.out = "ok" THEN e.out = "ok" ELSE e.out # "ok")
                /\ Clause("obs.C14." \o e.c.op \o ".errorclass", r.out = "ok" \/ e.out = "ok" \/ e.out = r.out)
                /\ Clause("obs.C14." \o e.c.op \o ".missing", ~ (r.out = "KeyError" /\ e.out = "KeyError") \/ e.ret = r.ret)
                /\ Clause("C14." \o e.c.op \o ".value", ~ (r.out = "ok" /\ e.out = "ok") \/ (PostHas(e.new) /\ PostOf(e.new) = r.d))
                /\ Clause("C14." \o e.c.op \o ".newobject", e.out # "ok" \/ e.isnew)
                (* names of the sources that are not in the result are unknown to it (reading raises KeyError) *)
                /\ Clause("C14." \o e.c.op \o ".noghosts", e.out # "ok" \/ e.ghosts = <<>>)
                /\ Clause("C14." \o e.c.op \o ".frame", Frame({e.new}))
       ELSE Clause("domain", FALSE) /\ UNCHANGED ds
    /\ UNCHANGED cs

(* the Context constructor applied to the triple: outcome, read-back triple, round trip through .definition() *)
TrFreeze ==
    /\ IsEv("def.freeze")
    /\ IF e.h \in Live
       THEN LET v == ds[e.h]
            IN  /\ cs' = IF CtxWF(v) /\ e.out = "ok" THEN Set(cs, e.ch, v) ELSE cs
                /\ Clause("C14.freeze.outcome", IF CtxWF(v) THEN e.out = "ok" ELSE e.out = "ValueError")
                /\ Clause("C14.freeze.triple", e.out # "ok" \/ ToDef(e.triple) = v)
                /\ Clause("C14.freeze.roundtrip", e.out # "ok" \/ (e.rt_eq /\ e.rt_triple_eq))
                /\ Clause("C14.freeze.frame", Frame({}))
       ELSE Clause("domain", FALSE) /\ UNCHANGED cs
    /\ UNCHANGED ds

(* context.definition(): a new definition equal to the table, rebuilding an equal context *)
TrThaw ==
    /\ IsEv("ctx.thaw")
    /\ IF e.ch \in DOMAIN cs
       THEN /\ ds' = Adopt
            /\ Clause("C14.thaw.value", PostHas(e.new) /\ PostOf(e.new) = cs[e.ch])
            /\ Clause("C14.thaw.roundtrip", e.ctx_eq)
            /\ Clause("C14.thaw.frame", Frame({e.new}))
       ELSE Clause("domain", FALSE) /\ UNCHANGED ds
    /\ UNCHANGED cs

(* two contexts are equal exactly when their triples are equal *)
TrCtxEq ==
    /\ IsEv("ctx.eq")
    /\ IF e.a \in DOMAIN cs /\ e.b2 \in DOMAIN cs
       THEN /\ Clause("C14.ctx.eq", e.eq = (cs[e.a] = cs[e.b2]))
            /\ Clause("C14.ctx.ne", e.ne = (cs[e.a] # cs[e.b2]))
       ELSE Clause("domain", FALSE)
    /\ UNCHANGED <<ds, cs>>

(* shape, fill_ratio, table string and crc32 agree between a context and its definition *)
TrCtxMeta ==
    /\ IsEv("ctx.meta")
    /\ IF e.ch \in DOMAIN cs
       THEN LET v == cs[e.ch]
            IN  /\ Clause("C14.meta.shape.ctx", e.cshape = Shape(v))
                /\ Clause("C14.meta.shape.def", e.dshape = Shape(v))
                /\ Clause("C14.meta.fill.ctx", e.cfill[1] * FillRatio(v)[2] = FillRatio(v)[1] * e.cfill[2])
                /\ Clause("C14.meta.fill.def", e.dfill[1] * FillRatio(v)[2] = FillRatio(v)[1] * e.dfill[2])
                /\ Clause("C14.meta.tostring", e.str_eq)
                /\ Clause("C14.meta.crc32", e.crc_eq)
       ELSE Clause("domain", FALSE)
    /\ UNCHANGED <<ds, cs>>

TrCrash == /\ IsEv("crash")
           /\ Clause(e.prop \o ".raises." \o e.exc, FALSE)
           /\ UNCHANGED <<ds, cs>>

TrDone == l = Len(Log) + 1 /\ l' = l + 1 /\ PrintT(<<"DONE", Len(Log)>>) /\ UNCHANGED <<ds, cs>>

TraceInit == ds = <<>> /\ cs = <<>> /\ l = 1
TraceNext == \/ TrReset \/ TrDefNew \/ TrFork \/ TrDrop \/ TrDefOp \/ TrDefDerive \/ TrFreeze \/ TrThaw
             \/ TrCtxEq \/ TrCtxMeta \/ TrCrash \/ TrDone
TraceSpec == TraceInit /\ [][TraceNext]_vars
=============================================================================
