SPECIFICATION SSpec
CONSTANT H = 3
CONSTANT NTables = 2
CONSTANT EmitDepth = 0
CONSTANT EmitOneIn = 1
VIEW SView
INVARIANT STypeOK
PROPERTY SFrame
PROPERTY SImmutable
PROPERTY SPureIsStutter
PROPERTY SDerivedSameTable
PROPERTY SOrphans
PROPERTY SAbortOnlySetsFlag
CHECK_DEADLOCK FALSE
