---------------------------- MODULE TracePersist ----------------------------
(***************************************************************************)
(* Trace specification for structured persistence (C11).                   *)
(*                                                                         *)
(*   cx : handle |-> [K |-> context value, lat |-> BOOLEAN]                *)
(*        lat is the lazy-lattice flag of the handle: set by the first     *)
(*        call that needs the lattice (and by todict(ignore_lattice=       *)
(*        False)), set by a load that keeps a stored lattice, cleared on   *)
(*        the results of copy() and of pickling a context.  It is          *)
(*        observable through todict(ignore_lattice=None).                  *)
(*                                                                         *)
(* Exports are compared field by field with the documented encoding        *)
(* (Documents.tla); loaded objects are compared, through their full        *)
(* public observation, with a context recomputed from scratch.             *)
(***************************************************************************)
EXTENDS Documents, Json, IOUtils

VARIABLES cx, l
vars == <<cx, l>>
Log == ndJsonDeserialize(IOEnv.TRACE_FILE)
e == Log[l]
IsEv(name) == l <= Len(Log) /\ Log[l].ev = name /\ l' = l + 1
Clause(name, ok) == IF ok THEN TRUE ELSE PrintT(<<"MISMATCH", l, Log[l].b, Log[l].ev, name>>)
Put(f, h, v) == (h :> v) @@ f
Known(h) == h \in DOMAIN cx
OutOfDomain == Clause("domain", FALSE) /\ UNCHANGED cx

TrReset == IsEv("reset") /\ cx' = <<>>

TrNew == /\ IsEv("p.new")
         /\ cx' = Put(cx, e.h, [K |-> MkCtx(e.n, e.m, [i \in 1..e.n |-> ToSet(e.rows[i])]), lat |-> FALSE])

(* any read-only call that needs the lattice *)
TrTouch == /\ IsEv("p.touch")
           /\ IF Known(e.h) THEN cx' = [cx EXCEPT ![e.h].lat = TRUE] ELSE OutOfDomain

TrToDict ==
    /\ IsEv("p.todict")
    /\ IF Known(e.h)
       THEN LET c == cx[e.h]
                inc == IncludesLattice(e.ign, c.lat)
            IN  /\ cx' = [cx EXCEPT ![e.h].lat = CachedAfterToDict(e.ign, c.lat)]
                /\ Clause("C11.todict.outcome", e.out = "ok")
                /\ Clause("C11.todict.objects", e.objects = [i \in 1..c.K.n |-> i])
                /\ Clause("C11.todict.properties", e.properties = [j \in 1..c.K.m |-> j])
                /\ Clause("C11.todict.context", e.context = CtxRows0(c.K))
                /\ Clause("C11.todict.haslattice." \o e.ign, e.haslat = inc)
                /\ Clause("C11.todict.lattice", ~ (e.haslat /\ e.judge) \/ e.lattice = LatList0(LatticeOf(c.K)))
       ELSE OutOfDomain

(* fromdict / fromjson / python-literal loads of a document exported from handle src *)
TrLoad ==
    /\ IsEv("p.load")
    /\ IF Known(e.src)
       THEN LET want == IF e.require /\ ~ e.stored THEN "ValueError" ELSE "ok"
            IN  /\ cx' = IF e.out = "ok"
                         THEN Put(cx, e.new, [K |-> cx[e.src].K, lat |-> CachedAfterLoad(e.stored, e.ignore)])
                         ELSE cx
                /\ Clause("C11.load." \o e.via \o ".outcome", e.out = want)
                /\ Clause("C11.load." \o e.via \o ".equal", e.out # "ok" \/ e.eq)
                /\ Clause("C11.load." \o e.via \o ".cached", e.out # "ok" \/ e.cached = CachedAfterLoad(e.stored, e.ignore))
       ELSE OutOfDomain

(* full public observation of the handle's lattice vs a context recomputed from scratch;
   pub: the observation re-encoded as the documented 4-tuples (small lattices only) *)
TrObs ==
    /\ IsEv("p.obs")
    /\ IF Known(e.h)
       THEN /\ cx' = [cx EXCEPT ![e.h].lat = TRUE]
            /\ Clause("C11.obs." \o e.how \o ".same", e.obs = e.fresh)
            /\ Clause("C11.obs." \o e.how \o ".spec", ~ e.judge \/ e.pub = LatList0(LatticeOf(cx[e.h].K)))
       ELSE OutOfDomain

TrCopy ==
    /\ IsEv("p.copy")
    /\ IF Known(e.h)
       THEN /\ cx' = Put(cx, e.new, [K |-> cx[e.h].K, lat |-> FALSE])
            /\ Clause("C11.copy.equal", e.eq)
            /\ Clause("C11.copy.cached", ~ e.cached)
       ELSE OutOfDomain

(* pickling in this process or through a child interpreter with another hash seed;
   relative clauses only (no reference to cx), so these events may come in any order *)
TrPickle ==
    /\ IsEv("p.pickle")
    /\ Clause("C11.pickle." \o e.what \o ".outcome", e.out = "ok")
    /\ Clause("C11.pickle." \o e.what \o ".equal", e.out # "ok" \/ e.eq)
    /\ Clause("C11.pickle." \o e.what \o ".obs", e.out # "ok" \/ e.obs = e.fresh)
    /\ Clause("C11.pickle." \o e.what \o ".cached", e.out # "ok" \/ e.what \notin {"ctx", "own"} \/ ~ e.cached)
    /\ UNCHANGED cx

TrCrash == IsEv("crash") /\ Clause(e.prop \o ".raises." \o e.exc, FALSE) /\ UNCHANGED cx
TrDone == l = Len(Log) + 1 /\ l' = l + 1 /\ PrintT(<<"DONE", Len(Log)>>) /\ UNCHANGED cx

TraceInit == cx = <<>> /\ l = 1
TraceNext == TrReset \/ TrNew \/ TrTouch \/ TrToDict \/ TrLoad \/ TrObs \/ TrCopy \/ TrPickle \/ TrCrash \/ TrDone
TraceSpec == TraceInit /\ [][TraceNext]_vars
=============================================================================
