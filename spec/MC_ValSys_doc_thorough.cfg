SPECIFICATION VSpec
CONSTANT Kind = "doc"
CONSTANT MaxN = 2
CONSTANT MaxM = 2
CONSTANT MaxDepth = 2
VIEW VView
INVARIANT SeedsValid
INVARIANT DocImpliesTriple
INVARIANT Emit
CHECK_DEADLOCK FALSE
