SPECIFICATION GSpec
CONSTANT Shapes <- ShapesThoroughMid
INVARIANT WellFormed
INVARIANT Emit
CHECK_DEADLOCK FALSE
