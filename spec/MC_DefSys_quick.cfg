SPECIFICATION DSpec
CONSTANT ONames <- QONames
CONSTANT PNames <- QPNames
CONSTANT MaxList = 2
CONSTANT Others <- QOthers
CONSTANT EmitDepth = 0
CONSTANT EmitOneIn = 1
VIEW DView
INVARIANT DWF
INVARIANT RowsWellShaped
INVARIANT ThInvolutions
INVARIANT ThDerivedWF
INVARIANT ThUnionLaws
INVARIANT ThTakeAll
INVARIANT ThFreeze
PROPERTY ErrorsChangeNothing
CHECK_DEADLOCK FALSE
