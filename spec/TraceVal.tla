------------------------------ MODULE TraceVal ------------------------------
(***************************************************************************)
(* Trace specification for C19: each event is one call of the real         *)
(* Context constructor or of Context.fromdict on a (possibly ill-formed)   *)
(* input, with the outcome and - when accepted - the read-back triple.     *)
(* The inputs come from ValSys.tla (every single/double corruption of      *)
(* every small valid input, enumerated by TLC) and from the harness's      *)
(* random corruptions of larger inputs.                                    *)
(***************************************************************************)
EXTENDS Validation, Json, IOUtils

VARIABLE l
Log == ndJsonDeserialize(IOEnv.TRACE_FILE)
e == Log[l]
IsEv(name) == l <= Len(Log) /\ Log[l].ev = name /\ l' = l + 1
Clause(name, ok) == IF ok THEN TRUE ELSE PrintT(<<"MISMATCH", l, Log[l].b, Log[l].ev, name>>)

(* read-back: names as atoms, true cells as 1-based <<row, column>>, row lengths *)
ReadBackOK(v, cells) ==
    /\ e.rb.objs = v.objs /\ e.rb.props = v.props
    /\ ToSet(e.rb.cells) = cells
    /\ e.rb.nrows = Len(v.objs)
    /\ \A i \in 1..Len(e.rb.rowlens) : e.rb.rowlens[i] = Len(v.props)

TrTriple ==
    /\ IsEv("val.triple")
    /\ Clause("C19.ctx.outcome", e.out = TripleOutcome(e.val))
    /\ Clause("C19.ctx.readback", ~ (e.out = "ok" /\ TripleOK(e.val)) \/ ReadBackOK(e.val, TripleCells(e.val)))

TrDoc ==
    /\ IsEv("val.doc")
    /\ Clause("C19.fromdict.outcome", e.out = DocOutcome(e.val))
    /\ Clause("C19.fromdict.readback", ~ (e.out = "ok" /\ DocOK(e.val)) \/ ReadBackOK(e.val, DocCells(e.val)))
    /\ Clause("C11.fromdict.lazyflag", ~ (e.out = "ok" /\ DocOK(e.val)) \/ e.haslat = DocLoadsLattice(e.val))

TrDone == l = Len(Log) + 1 /\ l' = l + 1 /\ PrintT(<<"DONE", Len(Log)>>)
TraceInit == l = 1
TraceNext == TrTriple \/ TrDoc \/ TrDone
TraceSpec == TraceInit /\ [][TraceNext]_l
=============================================================================
