------------------------------- MODULE Order -------------------------------
(***************************************************************************)
(* The two canonical total orders on finite sets of naturals that the      *)
(* library promises: short-lexicographic (fewer members first, ties by     *)
(* the smallest position in which the sets differ: the set that has it     *)
(* comes first) and long-lexicographic (more members first, same tie).     *)
(***************************************************************************)
EXTENDS Naturals, FiniteSets, Sequences, FiniteSetsExt, SequencesExt, TLC

LexLess(A, B) == A # B /\ Min(SymDiff(A, B)) \in A

ShortLess(A, B) == LET a == Cardinality(A)  b == Cardinality(B)
                   IN  a < b \/ (a = b /\ LexLess(A, B))
LongLess(A, B)  == LET a == Cardinality(A)  b == Cardinality(B)
                   IN  a > b \/ (a = b /\ LexLess(A, B))

(* rank of x in S under a strict total order: number of strictly smaller *)
Rank(S, less(_, _), x) == Cardinality({y \in S : less(y, x)})

SortSets(S, less(_, _)) == SetToSortSeq(S, less)

IsStrictTotalOrderOn(S, less(_, _)) ==
    /\ \A a \in S : ~ less(a, a)
    /\ \A a, b \in S : a # b => (less(a, b) \/ less(b, a)) /\ ~ (less(a, b) /\ less(b, a))
    /\ \A a, b, c \in S : less(a, b) /\ less(b, c) => less(a, c)
=============================================================================
