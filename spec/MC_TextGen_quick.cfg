SPECIFICATION GSpec
CONSTANT MaxN = 2
CONSTANT MaxM = 2
INVARIANT LabelsDistinct
INVARIANT Emit
CHECK_DEADLOCK FALSE
