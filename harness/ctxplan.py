"""Which contexts and which call families each context/lattice property is recorded on, per tier."""
import corpus

SMALL = [(1, 1), (1, 2), (2, 1), (2, 2), (1, 3), (3, 1), (2, 3), (3, 2), (3, 3)]
MID = [(3, 4), (4, 3), (2, 4), (4, 2), (1, 4), (4, 1)]
BIG = [(4, 4), (2, 6), (6, 2), (3, 5), (5, 3), (2, 5), (5, 2)]

# families recorded per property (rec_ctx.drive)
FAMILIES = {
    'C01': {'C01'}, 'C02': {'C02', 'C02L'}, 'C03': {'C03'}, 'C04': {'C04'}, 'C05': {'C05'},
    'C06': {'C06'}, 'C07': {'C07'}, 'C08': {'C08'}, 'C09': {'C09'}, 'C10': {'C10'},
    'C15': {'C15'}, 'C16': {'C16'}, 'C18': {'C18'}, 'C20': {'C20'},
}
# clause prefixes each property owns (a mismatch of another prefix in its trace is reported as foreign)
OWN = {p: (p + '.',) for p in FAMILIES}
OWN['C05'] = ('C05.',)
OWN['C06'] = ('C06.',)

LIGHT = {'C03', 'C04', 'C05', 'C06', 'C10', 'C16', 'C20'}
WIDE = {'C01', 'C02', 'C03', 'C04', 'C05'}


def shape_set(prop, tier):
    """Name of the shape set (a definition of spec/TableGen.tla) whose tables TLC enumerates for this check."""
    light = prop in LIGHT
    if tier == 'quick':
        return 'ShapesQuickC16' if prop == 'C16' else 'ShapesQuickLight' if light else 'ShapesQuick'
    if light:
        return 'ShapesThoroughBig'
    return 'ShapesThoroughMid4' if prop in ('C01', 'C02', 'C08', 'C18') else 'ShapesThoroughMid'


def load_tables(path):
    """The exhaustive tables as printed by TLC (TableGen.tla), one JSON object per line."""
    import json
    out = []
    with open(path, encoding='utf-8') as f:
        for line in f:
            d = json.loads(line)
            out.append(corpus.Table(d['n'], d['m'], d['rows'], f"ex{d['n']}x{d['m']}"))
    return out


def plan(prop, tier, seed, ex_tables=None):
    """Return a list of (table, exhaustive_queries, label_variant).

    ex_tables: the exhaustive part as enumerated by TLC; if None it is enumerated here (same shapes)."""
    out = []
    light = prop in LIGHT
    if tier == 'quick':
        shapes = SMALL + (MID[:2] if light else [])
        struct = corpus.structured(6, big=light)
        nrand, rmax = (300, 8) if light else (120, 7)
        nwide = 16
    else:
        shapes = SMALL + MID + (BIG if light else [(4, 4)] if prop in ('C01', 'C02', 'C08', 'C18') else [])
        struct = corpus.structured(8, big=True)
        nrand, rmax = (5000, 10) if light else (1500, 9)
        nwide = 120
    if prop == 'C16' and tier == 'quick':
        shapes = SMALL + MID[:2] + [(4, 2), (2, 4)]
    if prop == 'C18':
        struct = [t for t in struct if t.m <= 10]
    for t in (ex_tables if ex_tables is not None else corpus.exhaustive(shapes)):
        out.append((t, True))
    for t in struct:
        out.append((t, False))
    for t in corpus.repo_examples(corpus_repo()):
        if prop == 'C18' and t.m > 10:
            continue
        out.append((t, False))
    for t in corpus.randoms(nrand, seed, rmax, rmax):
        out.append((t, False))
    if prop in WIDE:
        for t in corpus.wide(nwide, seed, 140 if tier == 'quick' else 200):
            out.append((t, False))
    if prop in ('C01', 'C02'):
        for t in list(corpus.widesquare(seed, big=(tier == 'thorough'))) + corpus.giant(seed) + corpus.giant20k(seed):
            out.append((t, False))
    if prop == 'C18':
        for t in corpus.bigintent():
            out.append((t, False))
        # gaps in the sizes of a concept's minimal generating sets; dense 4..6 x 4..6 tables
        for t in corpus.mingen(seed, 300 if tier == 'quick' else 3000):
            out.append((t, False))
        for t in corpus.randoms(400 if tier == 'quick' else 4000, seed + 18, 6, 6, 4, 4):
            out.append((t, False))
    if prop == 'C16':
        for t in corpus.giant(seed)[:1]:       # many objects, 3 properties (relations are quadratic in properties)
            out.append((t, False))
    if prop == 'C04':
        for t in corpus.giant_gen(seed) + corpus.giant(seed):
            out.append((t, False))
    if prop not in ('C18', 'C01', 'C02', 'C16'):
        for t in corpus.tall(seed, 120 if tier == 'quick' else 1200):
            out.append((t, False))
    if prop not in ('C18',):
        for t in corpus.midwide(seed, big=(tier == 'thorough')):
            out.append((t, False))
    if prop in ('C03', 'C04', 'C05', 'C06', 'C07', 'C08', 'C09', 'C10'):
        for t in corpus.biglat(seed, big=(tier == 'thorough')):
            out.append((t, False))
    if prop in ('C06', 'C07', 'C08', 'C09', 'C10') or (prop == 'C15' and tier == 'thorough'):
        for t in corpus.colossal(big=(tier == 'thorough')):
            if t.tag == 'colossal-pairs4400' and prop not in ('C06', 'C09'):
                continue
            if t.tag.endswith('contranominal17') and prop == 'C09':
                continue      # 24 traversals of up to 131072 members each exceed what one TLC run evaluates (65537 stays)
            if prop != 'C15' or t.tag.endswith('contranominal17'):
                out.append((t, False))
    if prop == 'C07' and tier == 'thorough':
        for t in corpus.marathon(seed):
            out.append((t, False))
    if prop not in ('C18', 'C15', 'C16'):
        for t in corpus.hugethin(seed, big=(tier == 'thorough')) + corpus.twins(seed):
            out.append((t, False))
    if prop in ('C03', 'C04', 'C05', 'C06', 'C08', 'C09', 'C10', 'C11') and tier == 'thorough':
        # larger lattices: random sparse contexts up to 14 x 14
        for t in corpus.randoms(300, seed + 1, 14, 14, 9, 9):
            out.append((t, False))
    return [(t, ex, i % 4 if max(t.n, t.m) <= 12 else i % 3) for i, (t, ex) in enumerate(out)]


def corpus_repo():
    import os
    return os.environ.get('VERIF_REPO', '/repo')
