"""Context corpus: exhaustive small tables, structured families, random and wide tables.

A table is (n, m, rows) with rows[i] the sorted list of 1-based property
positions object i+1 has.  Everything is deterministic given (tier, seed).
"""
import itertools
import os
import random

__all__ = ['exhaustive', 'structured', 'randoms', 'wide', 'labels_for', 'Table']


class Table(tuple):
    """(n, m, rows, tag)"""
    __slots__ = ()

    def __new__(cls, n, m, rows, tag=''):
        rows = [sorted(set(r)) for r in rows]
        assert len(rows) == n and all(1 <= j <= m for r in rows for j in r)
        return tuple.__new__(cls, (n, m, rows, tag))

    n = property(lambda s: s[0])
    m = property(lambda s: s[1])
    rows = property(lambda s: s[2])
    tag = property(lambda s: s[3])

    def bools(self):
        return [tuple((j + 1) in r for j in range(self.m)) for r in map(set, self.rows)]


def from_bits(n, m, bits, tag='ex'):
    rows = [[j + 1 for j in range(m) if bits >> (i * m + j) & 1] for i in range(n)]
    return Table(n, m, rows, tag)


def exhaustive(shapes):
    """Every boolean table of the given shapes."""
    for n, m in shapes:
        for bits in range(1 << (n * m)):
            yield from_bits(n, m, bits, f'ex{n}x{m}')


def exhaustive_count(shapes):
    return sum(1 << (n * m) for n, m in shapes)


def structured(maxsize=8, big=False):
    out = []

    def add(n, m, rows, tag):
        out.append(Table(n, m, rows, tag))

    for n in range(1, maxsize + 1):
        add(n, n, [list(range(1, i + 2)) for i in range(n)], f'chain{n}')
        add(n, n, [list(range(i + 1, n + 1)) for i in range(n)], f'chainrev{n}')
        add(n, n, [[i + 1] for i in range(n)], f'nominal{n}')
        add(n, n, [[j for j in range(1, n + 1) if j != i + 1] for i in range(n)], f'contranominal{n}')
        # interordinal: <=k and >=k
        add(n, 2 * n, [[k for k in range(1, n + 1) if i + 1 <= k] + [n + k for k in range(1, n + 1) if i + 1 >= k]
                       for i in range(n)], f'interordinal{n}')
        add(n, 1, [[1]] * n, f'allcross{n}x1')
        add(1, n, [list(range(1, n + 1))], f'allcross1x{n}')
        add(n, 1, [[]] * n, f'allblank{n}x1')
        add(1, n, [[]], f'allblank1x{n}')
        add(n, 2, [[1] if i % 2 else [2] for i in range(n)], f'dicho{n}')
        if n >= 2:
            # duplicate rows / columns, a full row, an empty column, a full column
            add(n + 1, n, [[i + 1, (i + 1) % n + 1] for i in range(n)] + [[1, 2 % n + 1]], f'duprow{n}')
            add(n, n + 2, [[i + 1, n + 1] + ([n + 2] if i == 0 else []) for i in range(n)], f'fullcol{n}')
            add(n, n + 1, [[i + 1] for i in range(n - 1)] + [list(range(1, n + 1))], f'fullrow_emptycol{n}')
            add(n, 2 * n, [[i + 1, n + i + 1] for i in range(n)], f'dupcols{n}')
            add(n, n, [list(range(1, n + 1))] * n, f'allcross{n}')
            add(n, n, [[]] * n, f'allblank{n}')
    if big:
        for n in (10, 12, 16, 24, 40, 60):
            add(n, n, [list(range(1, i + 2)) for i in range(n)], f'chain{n}')
        for n in (9, 10):
            add(n, n, [[j for j in range(1, n + 1) if j != i + 1] for i in range(n)], f'contranominal{n}')
        for n in (12, 20):
            add(n, n, [[i + 1] for i in range(n)], f'nominal{n}')
    return out


def repo_examples(repo, maxcells=300):
    """The repository's own example contexts of moderate size (read with a trivial cxt reader)."""
    out = []
    exdir = os.path.join(repo, 'examples')
    if not os.path.isdir(exdir):
        return out
    for name in sorted(os.listdir(exdir)):
        if not name.endswith('.cxt'):
            continue
        try:
            with open(os.path.join(exdir, name), encoding='utf-8') as f:
                lines = [ln.rstrip('\n') for ln in f]
            if lines[0].strip() != 'B':
                continue
            n, m = int(lines[2]), int(lines[3])
            body = [ln for ln in lines[5:] if ln.strip() != '' or False]
            grid = body[n + m:n + m + n]
            if len(grid) != n or n * m > maxcells:
                continue
            rows = [[j + 1 for j, ch in enumerate(g.strip()) if ch == 'X'] for g in grid]
            out.append(Table(n, m, rows, f'example:{name}'))
        except Exception:
            continue
    return out


def randoms(count, seed, maxn=8, maxm=8, minn=1, minm=1):
    rng = random.Random(seed * 7919 + 13)
    for c in range(count):
        n = rng.randint(minn, maxn)
        m = rng.randint(minm, maxm)
        dens = rng.choice((0.15, 0.3, 0.5, 0.7, 0.85))
        rows = [[j + 1 for j in range(m) if rng.random() < dens] for _ in range(n)]
        kind = rng.random()
        if kind < 0.15 and n >= 2:          # force a duplicate row
            rows[rng.randrange(n)] = list(rows[rng.randrange(n)])
        elif kind < 0.3 and m >= 2:         # force a duplicate column
            a, b = rng.randrange(m) + 1, rng.randrange(m) + 1
            if a != b:
                rows = [sorted((set(r) - {b}) | ({b} if a in r else set())) for r in rows]
        elif kind < 0.4:                    # a full row
            rows[rng.randrange(n)] = list(range(1, m + 1))
        elif kind < 0.5:                    # an empty and a full column
            a = rng.randrange(m) + 1
            rows = [[j for j in r if j != a] for r in rows]
            if m >= 2:
                b = rng.randrange(m) + 1
                if b != a:
                    rows = [sorted(set(r) | {b}) for r in rows]
        yield Table(n, m, rows, f'rand{c}:{n}x{m}:{dens}')


def wide(count, seed, maxw=140):
    """Few rows x many columns (and transposed): isolated high bits, leading zeros, runs across 30/60/64/128."""
    rng = random.Random(seed * 104729 + 7)
    widths = [31, 33, 61, 63, 64, 65, 66, 70, 100, 127, 128, 129, 130, 140, 200]
    widths = [w for w in widths if w <= maxw] or [maxw]
    for c in range(count):
        w = widths[c % len(widths)]
        h = rng.choice((1, 2, 3, 4))
        style = c % 5
        rows = []
        for i in range(h):
            if style == 0:      # isolated high bits
                r = {w, w - 1 - i} | ({1} if i == 0 else set())
            elif style == 1:    # long run of zeros then a run of ones crossing a word boundary
                s = rng.choice((29, 59, 62, 63, 64, 126, 127))
                r = set(range(min(s, w - 1), min(s + 5 + i, w) + 1))
            elif style == 2:    # dense
                r = {j for j in range(1, w + 1) if rng.random() < 0.9}
            elif style == 3:    # sparse
                r = {j for j in range(1, w + 1) if rng.random() < 0.05} | {rng.randint(1, w)}
            else:               # alternating blocks
                r = {j for j in range(1, w + 1) if (j // (7 + i)) % 2 == 0}
            rows.append(sorted(j for j in r if 1 <= j <= w))
        t = Table(h, w, rows, f'wide{c}:{h}x{w}:s{style}')
        yield t
        # transposed
        cols = [[i + 1 for i in range(h) if j in set(rows[i])] for j in range(1, w + 1)]
        yield Table(w, h, cols, f'tall{c}:{w}x{h}:s{style}')


def midwide(seed, big=False):
    """More than 32 / 64 objects or properties AND a non-trivial but small lattice (lattice queries are run on
    these): scales, sparse random tables, block tables."""
    rng = random.Random(seed * 17 + 3)
    out = []
    sizes = [33, 66] + ([70, 130] if big else [])
    for n in sizes:
        out.append(Table(n, n, [[i + 1] for i in range(n)], f'mid-nominal{n}'))
        out.append(Table(n, n, [list(range(1, i + 2)) for i in range(n)], f'mid-chain{n}'))
    shapes = [(65, 5, 0.5), (5, 65, 0.5), (40, 8, 0.3), (8, 40, 0.7), (34, 34, 0.04), (70, 4, 0.6)]
    if big:
        shapes += [(130, 5, 0.5), (5, 130, 0.5), (100, 7, 0.4), (7, 100, 0.6), (66, 66, 0.03), (200, 3, 0.5)]
    for n, m, dens in shapes:
        rows = [[j for j in range(1, m + 1) if rng.random() < dens] for _ in range(n)]
        out.append(Table(n, m, rows, f'mid-rand{n}x{m}'))
    # blocks: groups of identical rows / columns across word boundaries
    for n in ([68] + ([132] if big else [])):
        out.append(Table(n, 6, [[1 + (i // 23), 4 + (i % 3)] for i in range(n)], f'mid-blocks{n}x6'))
        out.append(Table(6, n, [[j for j in range(1, n + 1) if (j + i) % 3 == 0 or j > n - 2 - i] for i in range(6)],
                         f'mid-blocks6x{n}'))
    return out


def hugethin(seed, big=False):
    """Several hundred objects (or properties) and a tiny lattice: cardinalities beyond 256, ties among very
    large extents, and the transposed shapes."""
    rng = random.Random(seed * 13 + 1)
    out = []
    for n in ([600] + ([1030] if big else [])):
        out.append(Table(n, 2, [[1] if i < n // 2 else [2] for i in range(n)], f'huge-halves{n}x2'))
        out.append(Table(n, 3, [[1 + i % 3] + ([3] if i % 7 == 0 else []) for i in range(n)], f'huge-thirds{n}x3'))
    for n, m in ([(300, 5), (520, 4)] + ([(700, 5)] if big else [])):
        rows = [[j for j in range(1, m + 1) if rng.random() < 0.5] for _ in range(n)]
        out.append(Table(n, m, rows, f'huge-rand{n}x{m}'))
    for t in list(out):
        cols = [[i + 1 for i in range(t.n) if j in set(t.rows[i])] for j in range(1, t.m + 1)]
        out.append(Table(t.m, t.n, cols, t.tag + ':T'))
    return out


def twins(seed):
    """Rows (columns) that are equal except for ONE member shifted by 31, 32, 61, 63 or 64 positions: the same
    integer modulo 2^31-1 / 2^32 / 2^61-1 / 2^63 / 2^64 patterns that hash- or word-based shortcuts conflate."""
    out = []
    for m, shifts in ((70, (61, 64, 32, 31, 63)), (130, (61, 64, 122, 128, 32))):
        rows = []
        for k, d in enumerate(shifts):
            base = {1 + k, 3 + k}
            rows.append(sorted(base | {4 + k}))          # has property 4+k
            rows.append(sorted(base | {4 + k + d}))      # has property 4+k+d instead
        rows.append([1, 2, 3])
        rows = [[j for j in r if j <= m] for r in rows]
        t = Table(len(rows), m, rows, f'twins{len(rows)}x{m}')
        out.append(t)
        cols = [[i + 1 for i in range(t.n) if j in set(t.rows[i])] for j in range(1, t.m + 1)]
        out.append(Table(t.m, t.n, cols, t.tag + ':T'))
    return out


def giant(seed):
    """One axis with thousands of members (beyond float / word / cache thresholds nobody would list), tiny or
    moderate lattices: 3200 x 3 and transposed; 150 x 3100 with ~150 concepts (for the generators)."""
    rng = random.Random(seed * 7 + 11)
    n = 4400        # also beyond CPython's default 4300-digit limit for int <-> str conversion
    rows = [[1 + (i % 3)] + ([3] if i % 5 == 0 else []) for i in range(n)]
    t = Table(n, 3, rows, f'giant{n}x3')
    cols = [[i + 1 for i in range(n) if j in set(rows[i])] for j in range(1, 4)]
    return [t, Table(3, n, cols, f'giant3x{n}')]


def giant20k(seed):
    """20 000 members on one axis (derivation operators only; a spread of singletons, not all)."""
    n = 20000
    rows = [[1 + (i % 3)] + ([3] if i % 5 == 0 else []) for i in range(n)]
    t = Table(n, 3, rows, 'giant20000x3')
    cols = [[i + 1 for i in range(n) if j in set(rows[i])] for j in range(1, 4)]
    return [t, Table(3, n, cols, 'giant3x20000')]


def giant_gen(seed):
    m = 3100
    rows = [[1 + (i * 20 + k) % m for k in range(20)] + [m - (i % 150)] for i in range(150)]
    t = Table(150, m, rows, 'giant150x3100')
    cols = [[i + 1 for i in range(150) if j in set(t.rows[i])] for j in range(1, m + 1)]
    return [t, Table(m, 150, cols, 'giant3100x150')]


def marathon(seed):
    """One lattice of several hundred concepts on which tens of thousands of DISTINCT joins / meets are run
    (state that builds up over many calls on one object, e.g. a bounded memo that overflows)."""
    rng = random.Random(seed * 3 + 2)
    rows = [[j for j in range(1, 13) if rng.random() < 0.55] for _ in range(40)]
    return [Table(40, 12, rows, 'marathon40x12')]


def bigintent():
    """A concept with a non-empty extent and an intent of 17 properties (2^17 candidate generating sets)."""
    return [Table(3, 17, [list(range(1, 18)), list(range(1, 9)), [1, 2, 17]], 'bigintent3x17')]


def mingen(seed, count=40):
    """Concepts whose MINIMAL generating sets have sizes with gaps (1 and k, 2 and k, ...): property 1 alone generates
    the concept, and so does the set {c_1..c_k} while no proper subset of it does (one object per c_i lacks exactly
    c_i); variants add a second singleton generator, a pair generator and noise rows / columns.  Contiguous sizes
    are what small exhaustive tables and the README example show."""
    rng = random.Random(f'{seed}:mingen')
    out = []
    for k in (3, 4, 5):
        for variant in range(4):
            m = 1 + k + (variant >= 2)
            cs = list(range(2, 2 + k))
            rows = [list(range(1, m + 1))]                      # g0 has everything
            rows += [[c for c in cs if c != x] for x in cs]     # lacks exactly one c_i (and property 1)
            if variant == 1:
                rows.append(list(range(1, 2 + k)))              # a second object of the target concept
            if variant >= 2:
                # property m pairs with c_1 to generate the concept as well (sizes 1, 2 and k)
                rows[1].append(m)
                rows.append([1] + cs)
            if variant == 3:
                rows.append([])
            out.append(Table(len(rows), m, rows, f'mingen{k}v{variant}'))
    for c in range(count):
        n, m = rng.randint(4, 6), rng.randint(4, 6)
        rows = [[j + 1 for j in range(m) if rng.random() < 0.6] for _ in range(n)]
        rows[rng.randrange(n)] = list(range(1, m + 1)) if c % 2 else rows[0]
        out.append(Table(n, m, rows, f'mingenrand{c}'))
    return out


def tall(seed, count=120):
    """Tall and flat random tables (8..14 objects x 4..6 properties and transposed): many pairwise incomparable rows
    over few properties - concepts with more covers than properties, long candidate loops in the cover search."""
    rng = random.Random(f'{seed}:tall')
    out = []
    for c in range(count):
        n, m = rng.randint(8, 14), rng.randint(4, 6)
        k = rng.choice((2, 2, 3, m // 2))
        rows = [sorted(rng.sample(range(1, m + 1), min(m, max(1, k + rng.choice((-1, 0, 0, 1)))))) for _ in range(n)]
        if c % 3 == 0:
            rows.sort(key=lambda r: (-len(r), r))
        elif c % 3 == 1:
            rows.sort(key=lambda r: (len(r), r))
        t = Table(n, m, rows, f'tall{c}')
        if c % 4 == 3:
            cols = [[i + 1 for i in range(n) if j + 1 in rows[i]] for j in range(m)]
            t = Table(m, n, cols, f'flat{c}')
        out.append(t)
    return out


def colossal(big=False):
    """Lattices far beyond what the TLA+ lattice value can be built for here: hundreds of atoms (nominal scales) and,
    in the thorough tier, 65 537 concepts.  Judged by relational clauses on the library's own extents."""
    out = [Table(520, 520, [[i + 1] for i in range(520)], 'colossal-nominal520')]
    # 1100 two-object extents {2201 + t, 4400 - t}: equal-size extents whose first members are consecutive high
    # positions while the second members decrease - any error in comparing positions up there reorders them
    n = 4400
    rows = [[] for _ in range(n)]
    for t in range(1100):
        rows[2200 + t].append(t + 1)
        rows[n - 1 - t].append(t + 1)
    out.append(Table(n, 1100, rows, 'colossal-pairs4400'))
    if big:
        out.append(Table(1030, 1030, [[i + 1] for i in range(1030)], 'colossal-nominal1030'))
        rows = [[j for j in range(1, 17) if j != i + 1] for i in range(16)] + [[17]]
        out.append(Table(17, 17, rows, 'colossal-contranominal16plus1'))       # 65 537 concepts
        out.append(Table(17, 17, [[j for j in range(1, 18) if j != i + 1] for i in range(17)],
                         'colossal-contranominal17'))                            # 131 072 concepts
    return out


def biglat(seed, big=False):
    """Lattices of several hundred to a thousand concepts with wide levels (> 128 / > 256 members)."""
    rng = random.Random(seed * 101 + 9)
    out = [Table(10, 10, [[j for j in range(1, 11) if j != i + 1] for i in range(10)], 'big-contranominal10')]
    rows = [[j for j in range(1, 15) if rng.random() < 0.7] for _ in range(14)]
    out.append(Table(14, 14, rows, 'big-dense14x14'))
    if big:
        out.append(Table(9, 9, [[j for j in range(1, 10) if j != i + 1] for i in range(9)], 'big-contranominal9'))
        out.append(Table(11, 11, [[j for j in range(1, 12) if j != i + 1] for i in range(11)], 'big-contranominal11'))
        for k in range(3):
            rows = [[j for j in range(1, 17) if rng.random() < 0.72] for _ in range(16)]
            out.append(Table(16, 16, rows, f'big-dense16x16-{k}'))
    return out


def widesquare(seed, big=False):
    """Tables with many rows AND many columns (no lattice is ever built on these): contranominal scales,
    where every row/column is distinguishable, dense random tables and shifted diagonals."""
    rng = random.Random(seed * 31 + 5)
    sizes = [34, 65, 70, 129] + ([200, 260] if big else [])
    for n in sizes:
        yield Table(n, n, [[j for j in range(1, n + 1) if j != i + 1] for i in range(n)], f'widecontra{n}')
        yield Table(n, n, [[j for j in range(1, n + 1) if j != n - i] for i in range(n)], f'wideanti{n}')
    shapes = [(40, 90), (90, 40), (66, 66), (35, 131)] + ([(131, 35), (150, 150)] if big else [])
    for n, m in shapes:
        for dens in (0.92, 0.5):
            rows = [[j for j in range(1, m + 1) if rng.random() < dens] for _ in range(n)]
            yield Table(n, m, rows, f'widerand{n}x{m}:{dens}')


def boundary_positions(n):
    pos = {1, 2, n - 1, n}
    if n > 6000:                          # 20k axis: powers of two and their neighbours, every 500th, the last ones
        for k in range(1, 16):
            pos |= {2 ** k - 1, 2 ** k, 2 ** k + 1, 2 ** k + 2}
        pos |= set(range(500, n, 500)) | set(range(n - 40, n + 1)) | {16384 + 615, 17000, 19999}
        return sorted(p for p in pos if 1 <= p <= n)
    if n > 1500:
        return list(range(1, n + 1))      # giant axes: every singleton (thresholds there cannot be guessed)
    for bnd in (30, 31, 32, 33, 34, 35, 59, 60, 61, 62, 63, 64, 65, 66, 126, 127, 128, 129, 130, 192, 193, 256, 257):
        pos.add(bnd)
    return sorted(p for p in pos if 1 <= p <= n)


def wide_subsets(n, rng, count=12):
    """Query subsets for wide axes: empty, full, boundary singletons and their complements, dense/sparse random."""
    full = list(range(1, n + 1))
    out = [[], full]
    bp = boundary_positions(n)
    for k, p in enumerate(bp):
        out.append([p])
        if n <= 1500 or k % 400 == 7:
            out.append([q for q in full if q != p])
    for _ in range(count):
        dens = rng.choice((0.05, 0.5, 0.9, 0.97))
        out.append([q for q in full if rng.random() < dens] or [rng.randint(1, n)])
    for _ in range(4):      # a run starting / ending at a boundary
        a = rng.choice(bp)
        b = rng.randint(a, n)
        out.append(list(range(a, b + 1)))
    return out


# pairs of DIFFERENT strings that a normalising / case-folding / stripping comparison would conflate
CONFUSABLE = [('caf\u00e9', 'cafe\u0301'), ('\u00c5', '\u212b'), ('\u03a9', '\u2126'), ('a', 'A'), ('K', '\u212a'),
              ('\u00df', 'ss'), ('\ufb01', 'fi'), ('\uff11', '1'), ('x', 'x\u200b'), ('\u1e9e', '\u00dfS'),
              ('\uac00', '\u1100\u1161'), ('o\u0308', '\u00f6'), ('I', '\u0131'), ('\u00b5', '\u03bc')]


def confusable_labels(n, m):
    flat = [x for pair in CONFUSABLE for x in pair]
    objs, props = [], []
    # objects get whole pairs from the front, properties whole pairs from the back, and one pair is split
    # across the two axes
    i = 0
    while len(objs) < n:
        objs.append(flat[i] if i < len(flat) - 8 else f'ob{i}')
        i += 1
    k = len(flat) - 1
    while len(props) < m:
        props.append(flat[k] if k >= i + 2 else f'pr{k}')
        k -= 1
    if i + 1 < k:
        objs[-1], props[-1] = CONFUSABLE[(i // 2) % len(CONFUSABLE)][0] + '\u0323q', 'unused'
        a, b2 = 'Ab\u00e9', 'Abe\u0301'
        objs[-1], props[-1] = a, b2
    if len(set(objs)) != n or len(set(props)) != m or set(objs) & set(props):
        objs = [f'c{x}\u00e9' if x % 2 else f'c{x - 1}e\u0301' for x in range(1, n + 1)]
        props = [f'q{x}\u00c5' if x % 2 else f'q{x - 1}\u212b' for x in range(1, m + 1)]
    return objs, props


def labels_for(n, m, variant=0):
    """Object / property labels (unique, disjoint, no whitespace) whose sort order differs from position order."""
    if variant == 3:
        objs, props = confusable_labels(n, m)
        assert len(set(objs)) == n and len(set(props)) == m and not set(objs) & set(props)
        return objs, props
    if variant % 3 == 0:        # reversed alphabetical
        objs = [f"{chr(ord('z') - i % 26)}{i // 26 if i >= 26 else ''}o" for i in range(n)]
        props = [f"{chr(ord('Z') - j % 26)}{j // 26 if j >= 26 else ''}P" for j in range(m)]
    elif variant % 3 == 1:      # numeric strings of mixed length, descending
        objs = [f"o{(n - i) * 7}" for i in range(n)]
        props = [f"p{(m - j) * 13}" for j in range(m)]
    else:                       # shuffled deterministic
        rng = random.Random(n * 1000 + m)
        objs = [f"ob{i}" for i in range(n)]
        props = [f"pr{j}" for j in range(m)]
        rng.shuffle(objs)
        rng.shuffle(props)
    assert len(set(objs)) == n and len(set(props)) == m and not set(objs) & set(props)
    return objs, props
