"""Worker for C11: structured persistence (dict / JSON / python-literal / pickle) with the lazy-lattice flag."""
import argparse
import copy
import hashlib
import io
import json
import os
import pathlib
import pickle
import random
import subprocess
import sys
import tempfile

sys.path.insert(0, os.path.dirname(os.path.abspath(__file__)))
sys.path.insert(0, os.environ.get('VERIF_REPO', '/repo'))

import corpus  # noqa: E402
import rec_ctx  # noqa: E402
import ctxplan  # noqa: E402


def observe(ctx):
    """Full public observation of a context and its lattice (label level)."""
    L = ctx.lattice
    ms = list(L)
    ids = {id(c): i for i, c in enumerate(ms)}
    n = len(ms)
    rng = random.Random(n * 31 + len(ctx.objects))
    pairs = [(rng.randrange(n), rng.randrange(n)) for _ in range(min(60, n * n))]
    pick = sorted({0, n - 1, n // 2, n // 3} | {rng.randrange(n) for _ in range(10)})
    obs = {
        'objects': list(ctx.objects), 'properties': list(ctx.properties), 'bools': [list(r) for r in ctx.bools],
        'len': len(L),
        'concepts': [[list(c.extent), list(c.intent)] for c in ms],
        'up': [[ids.get(id(u), -1) for u in c.upper_neighbors] for c in ms],
        'lo': [[ids.get(id(u), -1) for u in c.lower_neighbors] for c in ms],
        'index': [c.index for c in ms], 'dindex': [c.dindex for c in ms],
        'olab': [list(c.objects) for c in ms], 'plab': [list(c.properties) for c in ms],
        'atoms': [[ids.get(id(a), -1) for a in c.atoms] for c in ms],
        'cls': [type(c).__name__ for c in ms],
        'inf': ids.get(id(L.infimum), -1), 'sup': ids.get(id(L.supremum), -1),
        'latatoms': [ids.get(id(a), -1) for a in L.atoms],
        'lattice_of_members': all(c.lattice is L for c in ms),
        'join': [ids.get(id(L.join([ms[i], ms[j]])), -1) for i, j in pairs],
        'meet': [ids.get(id(ms[i] & ms[j]), -1) for i, j in pairs],
        'upset': [[ids.get(id(c), -1) for c in ms[i].upset()] for i in pick],
        'downset': [[ids.get(id(c), -1) for c in ms[i].downset()] for i in pick],
        'getitem': [ids.get(id(L[ms[i].extent]), -1) if ms[i].extent else -2 for i in pick],
        'call': [ids.get(id(L(ms[i].intent)), -1) for i in pick],
        'str': [str(ms[i]) for i in pick],
        'minimal': [list(ms[i].minimal()) for i in pick if len(ms[i].intent) <= 8],
    }
    return obs


def digest(obs):
    return hashlib.sha1(json.dumps(obs, sort_keys=True).encode()).hexdigest()


def pub_tuples(ctx):
    """The lattice re-encoded as the documented 4-tuples through public attributes only."""
    op = {x: i for i, x in enumerate(ctx.objects)}
    pp = {x: i for i, x in enumerate(ctx.properties)}
    ms = list(ctx.lattice)
    ids = {id(c): i for i, c in enumerate(ms)}
    return [[[op[x] for x in c.extent], [pp[x] for x in c.intent],
             [ids.get(id(u), -1) for u in c.upper_neighbors], [ids.get(id(u), -1) for u in c.lower_neighbors]]
            for c in ms]


def cached(ctx):
    """The lazy-lattice flag, observed through the public export."""
    return 'lattice' in ctx.todict(ignore_lattice=None)


def permute_doc(doc, rng):
    """Any permutation of the stored sequences (for raw=True)."""
    d = dict(doc)
    d['context'] = [tuple(rng.sample(list(r), len(r))) for r in doc['context']]
    lat = doc.get('lattice')
    if lat is not None:
        n = len(lat)
        sigma = list(range(n))
        rng.shuffle(sigma)                      # new position -> old position
        inv = {old: new for new, old in enumerate(sigma)}

        def sh(t):
            t = list(t)
            rng.shuffle(t)
            return tuple(t)
        d['lattice'] = [(sh(lat[o][0]), sh(lat[o][1]), sh(inv[u] for u in lat[o][2]), sh(inv[u] for u in lat[o][3]))
                        for o in sigma]
    return d


CHILD = r'''
import sys, os, json, pickle
sys.path.insert(0, os.environ['VERIF_HARNESS']); sys.path.insert(0, os.environ['VERIF_REPO'])
import concepts
from rec_persist_worker import observe, digest, cached
jobs = json.load(open(sys.argv[1]))
out = []
loaded = {}
for j in jobs:          # load ALL pickles first: objects with equal labels from different tables are alive together
    try:
        with open(j['path'], 'rb') as f:
            loaded[j['id']] = pickle.load(f)
    except Exception as exc:
        loaded[j['id']] = exc
for j in jobs:
    r = {'id': j['id']}
    try:
        x = loaded[j['id']]
        if isinstance(x, Exception):
            raise x
        fresh = concepts.Context(j['objects'], j['properties'], [tuple(b) for b in j['bools']])
        if j['what'] == 'ctx':
            r.update(out='ok', eq=bool(x == fresh) and not (x != fresh), cached=cached(x),
                     obs=digest(observe(x)), fresh=digest(observe(fresh)))
        else:
            c2 = x._context
            class _H:      # observe the unpickled lattice itself, not a recomputed one
                pass
            h = _H(); h.lattice = x; h.objects = c2.objects; h.properties = c2.properties; h.bools = c2.bools
            r.update(out='ok', eq=bool(c2 == fresh), cached=False, obs=digest(observe(h)), fresh=digest(observe(fresh)))
    except Exception as exc:
        r.update(out=type(exc).__name__, msg=str(exc)[:200])
    out.append(r)
json.dump(out, sys.stdout)
'''


PAIR = r'''
import sys, os, json, pickle
sys.path.insert(0, os.environ['VERIF_HARNESS']); sys.path.insert(0, os.environ['VERIF_REPO'])
import concepts
import corpus
from rec_persist_worker import observe, digest, cached, LatHolder
role, d = sys.argv[1], sys.argv[2]
specs = [(3, 3, 0), (2, 4, 1), (4, 2, 2), (3, 3, 0), (5, 5, 1), (2, 2, 2)]
def table(k, n, m, flip):
    return [tuple(((i * 3 + j * 5 + k) % 3 == 0) != flip for j in range(m)) for i in range(n)]
if role == 'producer':
    # the first contexts this interpreter ever creates
    for k, (n, m, v) in enumerate(specs):
        o, p = corpus.labels_for(n, m, v)
        c = concepts.Context(o, p, table(k, n, m, False))
        pickle.dump(c, open(os.path.join(d, f'c{k}.pkl'), 'wb'))
        pickle.dump(c.lattice, open(os.path.join(d, f'l{k}.pkl'), 'wb'))
    print('[]')
else:
    own = []
    for k, (n, m, v) in enumerate(specs):       # same labels, same creation order, DIFFERENT tables
        o, p = corpus.labels_for(n, m, v)
        c = concepts.Context(o, p, table(k, n, m, True))
        own.append((c, digest(observe(c))))
    loaded = []
    for k in range(len(specs)):
        loaded.append((pickle.load(open(os.path.join(d, f'c{k}.pkl'), 'rb')), pickle.load(open(os.path.join(d, f'l{k}.pkl'), 'rb'))))
    out = []
    for k, (n, m, v) in enumerate(specs):
        o, p = corpus.labels_for(n, m, v)
        fresh = digest(observe(concepts.Context(o, p, table(k, n, m, False))))
        c, l = loaded[k]
        was_cached = cached(c)      # the lazy flag right after loading, BEFORE anything touches the lattice
        for what, x in (('ctx', c), ('lat', LatHolder(l))):
            try:
                out.append({'k': k, 'what': what, 'out': 'ok', 'obs': digest(observe(x)), 'fresh': fresh,
                            'eq': True, 'cached': was_cached if what == 'ctx' else False})
            except Exception as exc:
                out.append({'k': k, 'what': what, 'out': type(exc).__name__})
    for k, (c, before) in enumerate(own):
        c2 = concepts.Context(c.objects, c.properties, c.bools)
        try:
            out.append({'k': k, 'what': 'own', 'out': 'ok', 'obs': digest(observe(c2)) and digest(observe(c)),
                        'fresh': before, 'eq': True, 'cached': False})
        except Exception as exc:
            out.append({'k': k, 'what': 'own', 'out': type(exc).__name__})
    print(json.dumps(out))
'''


class LatHolder:
    def __init__(self, lat):
        c = lat._context
        self.lattice, self.objects, self.properties, self.bools = lat, c.objects, c.properties, c.bools


class Rec:
    def __init__(self, emit, C, tmp):
        self.emit, self.C, self.tmp = emit, C, tmp
        self.b = 0
        self.child_jobs = []
        self._fresh = None
        self.ring = []

    def ev(self, _n, **f):
        d = {'b': self.b, 'ev': _n}
        d.update(f)
        self.emit(d)

    def fresh(self, ctx):
        return self.C.Context(ctx.objects, ctx.properties, ctx.bools)

    def fresh_digest(self, ctx):
        """Observation of a context recomputed from scratch (once per behaviour: it is the same table)."""
        if self._fresh is None or self._fresh[0] != self.b:
            self._fresh = (self.b, digest(observe(self.fresh(ctx))))
        return self._fresh[1]

    def todict(self, h, ctx, ign, judge):
        arg = {'F': False, 'T': True, 'N': None}[ign]
        try:
            d = ctx.todict(ignore_lattice=arg)
        except Exception as exc:
            self.ev('p.todict', h=h, ign=ign, out=type(exc).__name__, objects=[], properties=[], context=[],
                    haslat=False, judge=False, lattice=[])
            return None
        op = {x: i + 1 for i, x in enumerate(self.olabels)}
        pp = {x: j + 1 for j, x in enumerate(self.plabels)}
        lat = d.get('lattice')
        self.ev('p.todict', h=h, ign=ign, out='ok', objects=[op.get(x, -1) for x in d['objects']],
                properties=[pp.get(x, -1) for x in d['properties']], context=[list(r) for r in d['context']],
                haslat=lat is not None, judge=judge,
                lattice=[[list(t) for t in c] for c in lat] if (lat is not None and judge) else [])
        # the result is the caller's own new dict: hand a deep copy on and vandalise the returned object in place;
        # later exports of the same context must not notice
        keep = copy.deepcopy(d)
        for v in d.values():
            if isinstance(v, list):
                v.reverse()
                del v[len(v) // 2:]
        d.clear()
        return keep

    def load(self, via, src, new, doc, stored, rng, orig, perm=False, ignore=False, require=False, raw=False):
        C = self.C
        kw = dict(ignore_lattice=ignore, require_lattice=require, raw=raw)
        out, ctx = 'ok', None
        try:
            if via == 'dict':
                ctx = C.Context.fromdict(doc, **kw)
            elif via.startswith('json'):
                p = os.path.join(self.tmp, f'doc{new}.json')
                with open(p, 'w', encoding='utf-8') as f:
                    json.dump(doc, f)
                if via == 'json-str':
                    ctx = C.Context.fromjson(p, **kw)
                elif via == 'json-pathlike':
                    ctx = C.Context.fromjson(pathlib.Path(p), **kw)
                else:
                    with open(p, encoding='utf-8') as f:
                        ctx = C.Context.fromjson(f, **kw)
            else:
                raise AssertionError(via)
        except Exception as exc:
            out = type(exc).__name__
        f = {}
        if out == 'ok':
            f = dict(eq=bool(ctx == orig) and not (ctx != orig), cached=cached(ctx))
        self.ev('p.load', via=via, src=src, new=new, stored=stored, perm=perm, ignore=ignore, require=require,
                raw=raw, out=out, **f)
        return ctx

    def obs(self, h, ctx, how, judge):
        try:
            o = digest(observe(ctx))
            fr = self.fresh_digest(ctx)
            pub = pub_tuples(ctx) if judge else []
        except Exception as exc:
            self.ev('crash', prop='C11', call='observe:' + how, exc=type(exc).__name__, msg=str(exc)[:200])
            return
        self.ev('p.obs', h=h, how=how, obs=o, fresh=fr, judge=judge, pub=pub)

    def pickle_inproc(self, what, h, ctx):
        f = {}
        try:
            target = ctx if what == 'ctx' else ctx.lattice
            data = pickle.dumps(target, protocol=pickle.HIGHEST_PROTOCOL if h % 2 else 2)
            x = pickle.loads(data)
            if what == 'ctx':
                f = dict(eq=bool(x == ctx) and not (x != ctx), cached=cached(x), obs=digest(observe(x)),
                         fresh=self.fresh_digest(ctx))
            else:
                f = dict(eq=bool(x._context == ctx), cached=False, obs=digest(observe(LatHolder(x))),
                         fresh=self.fresh_digest(ctx))
            out = 'ok'
            if len(ctx.objects) * len(ctx.properties) <= 64:
                self.ring.append((self.b, what, x, self.fresh_digest(ctx)))
        except Exception as exc:
            out = type(exc).__name__
        self.ev('p.pickle', what=what, where='inproc', h=h, out=out, concepts=self.nconcepts(ctx), **f)
        return out

    def revisit(self):
        """Observe again an object that was loaded several behaviours ago and is still alive (other contexts
        with the same labels have been built / loaded since)."""
        if len(self.ring) < 6:
            return
        b, what, x, fresh = self.ring.pop(0)
        keep = self.b
        self.b = b
        try:
            o = digest(observe(x if what != 'lat' else LatHolder(x)))
            self.ev('p.pickle', what=what, where='revisited-later', h=1, out='ok', eq=True, cached=False,
                    obs=o, fresh=fresh, concepts=-1)
        except Exception as exc:
            self.ev('p.pickle', what=what, where='revisited-later', h=1, out=type(exc).__name__, concepts=-1)
        self.b = keep

    def nconcepts(self, ctx):
        try:
            return len(ctx.lattice)
        except Exception:
            return -1

    def pickle_child(self, what, h, ctx):
        try:
            target = ctx if what == 'ctx' else ctx.lattice
            path = os.path.join(self.tmp, f'p{self.b}_{h}_{what}.pkl')
            with open(path, 'wb') as f:
                pickle.dump(target, f)
        except Exception as exc:
            self.ev('p.pickle', what=what, where='child', h=h, out=type(exc).__name__, concepts=self.nconcepts(ctx))
            return
        self.child_jobs.append({'id': len(self.child_jobs), 'b': self.b, 'h': h, 'what': what, 'path': path,
                                'objects': list(ctx.objects), 'properties': list(ctx.properties),
                                'bools': [list(r) for r in ctx.bools], 'concepts': self.nconcepts(ctx)})

    def fresh_pair(self, b):
        """Two FRESH interpreters: the producer pickles the first contexts it ever creates; the consumer first
        creates contexts with the same labels (other tables) in the same order, then loads the pickles."""
        d = tempfile.mkdtemp(prefix='pair-', dir=self.tmp)
        script = os.path.join(d, 'pair.py')
        with open(script, 'w') as f:
            f.write(PAIR)
        self.b = b
        res = None
        for role, hs in (('producer', '17'), ('consumer', '4242')):
            env = dict(os.environ, PYTHONHASHSEED=hs, VERIF_HARNESS=os.path.dirname(os.path.abspath(__file__)),
                       VERIF_REPO=os.environ.get('VERIF_REPO', '/repo'))
            p = subprocess.run([sys.executable, script, role, d], env=env, capture_output=True, text=True)
            if p.returncode != 0:
                self.ev('p.pickle', what='ctx', where='fresh-pair:' + role, h=0, out='ProcessFailed', concepts=-1,
                        msg=p.stderr[-300:])
                return
            res = json.loads(p.stdout.strip().splitlines()[-1])
        for r in res:
            f = {k: r[k] for k in ('eq', 'cached', 'obs', 'fresh') if k in r}
            self.ev('p.pickle', what=r['what'], where='fresh-pair', h=r['k'], out=r['out'], concepts=-1, **f)

    def run_children(self, seeds):
        if not self.child_jobs:
            return
        jf = os.path.join(self.tmp, 'jobs.json')
        with open(jf, 'w') as f:
            json.dump(self.child_jobs, f)
        script = os.path.join(self.tmp, 'child.py')
        with open(script, 'w') as f:
            f.write(CHILD)
        for seed in seeds:
            env = dict(os.environ, PYTHONHASHSEED=str(seed), VERIF_HARNESS=os.path.dirname(os.path.abspath(__file__)),
                       VERIF_REPO=os.environ.get('VERIF_REPO', '/repo'))
            p = subprocess.run([sys.executable, script, jf], env=env, capture_output=True, text=True)
            if p.returncode != 0:
                raise RuntimeError('child interpreter failed: ' + p.stderr[-2000:])
            for r in json.loads(p.stdout):
                j = self.child_jobs[r['id']]
                self.b = j['b']
                f = {k: r[k] for k in ('eq', 'cached', 'obs', 'fresh') if k in r}
                self.ev('p.pickle', what=j['what'], where=f'child:{seed}', h=j['h'], out=r['out'],
                        concepts=j['concepts'], **f)


def behaviour(rec, table, b, rng, lv, tier, heavy):
    """One context through the whole persistence life cycle."""
    C = rec.C
    n, m = table.n, table.m
    rec.b = b
    rec.emit({'b': b, 'ev': 'reset'})
    rec.olabels, rec.plabels = corpus.labels_for(n, m, lv)
    if b % 5 == 0:      # non-ASCII and awkward labels survive JSON / literal / pickle
        rec.olabels = [x + 'äЖ"\'' for x in rec.olabels]
    ctx = C.Context(rec.olabels, rec.plabels, table.bools())
    judge = min(n, m) <= 8 and max(n, m) <= 30
    rec.ev('p.new', h=1, n=n, m=m, rows=table.rows, tag=table.tag)
    # lattice not computed yet
    rec.todict(1, ctx, 'N', judge)
    d_nolat = rec.todict(1, ctx, 'T', judge)
    h = 10
    for require in (False, True):
        rec.load('dict', 1, h, d_nolat, False, rng, ctx, require=require)
        h += 1
    c2 = rec.load('json-str', 1, h, d_nolat, False, rng, ctx)
    if c2 is not None:
        rec.obs(h, c2, 'json-nolattice', judge)
    h += 1
    lit = ctx.tostring(frmat='python-literal')        # exports todict(ignore_lattice=None): no lattice yet
    c3 = C.Context.fromstring(lit, frmat='python-literal')
    rec.ev('p.load', via='literal-str', src=1, new=h, stored=False, perm=False, ignore=False, require=False,
           raw=False, out='ok', eq=bool(c3 == ctx), cached=cached(c3))
    h += 1
    # materialise
    if b % 2:
        d_lat = rec.todict(1, ctx, 'F', judge)
    else:
        ctx.lattice
        rec.ev('p.touch', h=1)
        d_lat = rec.todict(1, ctx, 'N', judge)
    rec.todict(1, ctx, 'N', judge)
    rec.todict(1, ctx, 'T', judge)
    if d_lat is None or 'lattice' not in d_lat:
        return
    if table.tag.startswith(('chain', 'dense')) and n > 60 or table.tag.startswith('contranominal') and n >= 9:
        # large lattices: one canonical load, one permuted raw load, pickles (relative checks only)
        c = rec.load('dict', 1, h, d_lat, True, rng, ctx)
        if c is not None:
            rec.obs(h, c, 'dict', False)
        c = rec.load('json-str', 1, h + 1, permute_doc(d_lat, rng), True, rng, ctx, perm=True, raw=True)
        if c is not None:
            rec.obs(h + 1, c, 'json-str-permuted-raw', False)
        rec.pickle_inproc('ctx', 1, ctx)
        rec.pickle_inproc('lat', 1, ctx)
        rec.pickle_child('lat', 1, ctx)
        return
    for via in (('dict', 'json-str', 'json-pathlike', 'json-fileobj') if heavy else ('dict', 'json-fileobj')):
        for ignore in (False, True):
            for raw in (False, True):
                if via != 'dict' and (ignore and raw):
                    continue
                c = rec.load(via, 1, h, d_lat, True, rng, ctx, ignore=ignore, raw=raw, require=(h % 3 == 0))
                if c is not None and (not ignore or raw):
                    rec.obs(h, c, f'{via}{"-raw" if raw else ""}{"-ignore" if ignore else ""}', judge)
                h += 1
    nperm = 3 if tier == 'quick' else 10
    for k in range(nperm):
        pd = permute_doc(d_lat, rng)
        via = ('dict', 'json-str')[k % 2]
        c = rec.load(via, 1, h, pd, True, rng, ctx, perm=True, raw=True)
        if c is not None:
            rec.obs(h, c, f'{via}-permuted-raw', judge)
        h += 1
    # python-literal with the lattice now present (tostring exports it because it is cached)
    lit = ctx.tostring(frmat='python-literal')
    c4 = C.Context.fromstring(lit, frmat='python-literal')
    rec.ev('p.load', via='literal-str', src=1, new=h, stored=True, perm=False, ignore=False, require=False,
           raw=False, out='ok', eq=bool(c4 == ctx), cached=cached(c4))
    rec.obs(h, c4, 'literal-str', judge)
    h += 1
    p = os.path.join(rec.tmp, f'ctx{b}.py')
    ctx.tofile(p, frmat='python-literal')
    c5 = C.Context.fromfile(p, frmat='python-literal')
    rec.ev('p.load', via='literal-file', src=1, new=h, stored=True, perm=False, ignore=False, require=False,
           raw=False, out='ok', eq=bool(c5 == ctx), cached=cached(c5))
    rec.obs(h, c5, 'literal-file', judge)
    h += 1
    c6 = C.load(p)
    rec.ev('p.load', via='literal-load', src=1, new=h, stored=True, perm=False, ignore=False, require=False,
           raw=False, out='ok', eq=bool(c6 == ctx), cached=cached(c6))
    h += 1
    os.unlink(p)
    # tojson writers
    for k, (ign, stored) in enumerate(((False, True), (True, False))):
        pj = os.path.join(rec.tmp, f'ctx{b}_{k}.json')
        if k == 0:
            ctx.tojson(pj, ignore_lattice=ign, indent=2)
        else:
            with open(pj, 'w', encoding='utf-8') as f:
                ctx.tojson(f, ignore_lattice=ign, sort_keys=False)
        c7 = C.Context.fromjson(pathlib.Path(pj))
        rec.ev('p.load', via='json-tojson', src=1, new=h, stored=stored, perm=False, ignore=False, require=False,
               raw=False, out='ok', eq=bool(c7 == ctx), cached=cached(c7))
        rec.obs(h, c7, 'json-tojson', judge)
        h += 1
        os.unlink(pj)
    # copy and pickles
    cc = ctx.copy()
    rec.ev('p.copy', h=1, new=h, eq=bool(cc == ctx), cached=cached(cc))
    h += 1
    rec.pickle_inproc('ctx', 1, ctx)
    rec.pickle_inproc('lat', 1, ctx)
    if heavy:
        rec.pickle_child('ctx', 1, ctx)
        rec.pickle_child('lat', 1, ctx)
    # loaded-from-dict objects are kept alive and revisited later as well
    if c7 is not None and n * m <= 64:
        rec.ring.append((b, 'dict', c7, rec.fresh_digest(ctx)))
    rec.revisit()
    rec.revisit()


def big_lattices(tier):
    """Contexts with lattices of a few hundred to a few thousand concepts (relative checks only)."""
    T = corpus.Table
    out = []
    sizes = [(7, 'contranominal'), (9, 'contranominal')] + ([(10, 'contranominal'), (12, 'contranominal')] if tier == 'thorough' else [])
    for n, _ in sizes:
        out.append(T(n, n, [[j for j in range(1, n + 1) if j != i + 1] for i in range(n)], f'contranominal{n}'))
    for n in (100, 420) + ((700, 1000) if tier == 'thorough' else ()):
        out.append(T(n, n, [list(range(1, i + 2)) for i in range(n)], f'chain{n}'))
    rng = random.Random(5)
    for n, m, dens in ((14, 12, 0.55), (18, 14, 0.5)) + (((24, 16, 0.5), (30, 18, 0.45)) if tier == 'thorough' else ()):
        out.append(T(n, m, [[j + 1 for j in range(m) if rng.random() < dens] for _ in range(n)], f'dense{n}x{m}'))
    return out


def main():
    ap = argparse.ArgumentParser()
    ap.add_argument('--tier', default='quick')
    ap.add_argument('--seed', type=int, default=0)
    ap.add_argument('--shard', type=int, default=0)
    ap.add_argument('--nshards', type=int, default=1)
    ap.add_argument('--only', type=int, default=None)
    ap.add_argument('--out', required=True)
    a = ap.parse_args()
    import concepts as C
    if not os.path.realpath(C.__file__).startswith(os.path.realpath(os.environ.get('VERIF_REPO', '/repo'))):
        raise SystemExit('wrong copy of concepts imported: ' + C.__file__)
    stats = {'behaviours': 0, 'events': 0, 'nontrivial': 0, 'samples': [], 'max_concepts': 0, 'child_pickles': 0}
    if a.tier == 'quick':
        shapes = [(1, 1), (1, 2), (2, 1), (2, 2), (2, 3), (3, 2)]
        tables = list(corpus.exhaustive(shapes)) + corpus.structured(5) + list(corpus.randoms(60, a.seed, 8, 8))
    else:
        shapes = [(1, 1), (1, 2), (2, 1), (2, 2), (2, 3), (3, 2), (3, 3)]
        tables = list(corpus.exhaustive(shapes)) + corpus.structured(8, big=False) + \
            list(corpus.randoms(1500, a.seed, 10, 10)) + corpus.repo_examples(os.environ.get('VERIF_REPO', '/repo'))
    tables += big_lattices(a.tier)
    tmp = tempfile.mkdtemp(prefix='persist-', dir=os.path.dirname(os.path.abspath(a.out)))
    with open(a.out, 'w', encoding='utf-8') as f:
        def emit(d):
            f.write(json.dumps(d, ensure_ascii=True, separators=(',', ':')) + '\n')
            stats['events'] += 1
        rec = Rec(emit, C, tmp)
        for b, t in enumerate(tables):
            if (a.only is not None and b != a.only) or (a.only is None and b % a.nshards != a.shard):
                continue
            rng = random.Random(f'{a.seed}:persist:{b}')
            heavy = (b % 7 == 0) or t.tag.startswith(('chain', 'contranominal', 'dense'))
            try:
                with rec_ctx.watchdog(3 * rec_ctx.CALL_TIMEOUT):
                    behaviour(rec, t, b, rng, b % 3, a.tier, heavy)
            except Exception as exc:
                rec.b = b
                rec.ev('crash', prop='C11', call='behaviour', exc=type(exc).__name__, msg=str(exc)[:300])
            stats['behaviours'] += 1
            ncross = sum(map(len, t.rows))
            stats['nontrivial'] += 0 < ncross < t.n * t.m
            if len(stats['samples']) < 1 and ncross:
                stats['samples'].append({'b': b, 'n': t.n, 'm': t.m, 'rows': t.rows, 'tag': t.tag})
        if a.shard == 0 and a.only is None:
            rec.fresh_pair(len(tables))
        stats['child_pickles'] = len(rec.child_jobs)
        stats['max_concepts'] = max([j['concepts'] for j in rec.child_jobs] or [0])
        rec.run_children([1, 12345] if a.tier == 'quick' else [1, 2, 12345, 987654321])
    import shutil
    shutil.rmtree(tmp, ignore_errors=True)
    print(json.dumps(stats))


if __name__ == '__main__':
    main()
