"""Child interpreter for C17: executes a fixed, seeded call corpus and prints one textual observation per call.

Run under different PYTHONHASHSEED values; the observations must be identical (memory addresses masked).
"""
import json
import os
import random
import re
import sys

sys.path.insert(0, os.path.dirname(os.path.abspath(__file__)))
sys.path.insert(0, os.environ.get('VERIF_REPO', '/repo'))

import corpus  # noqa: E402

ADDR = re.compile(r'0x[0-9a-fA-F]+')


def mask(s):
    return ADDR.sub('0x?', s)


def names(prefix, n):
    pool = ['alpha', 'beta', 'gamma', 'delta', 'eps', 'zeta', 'eta', 'theta', 'iota', 'kappa', 'la', 'mu', 'nu',
            'xi', 'omi', 'pi', 'rho', 'sigma', 'tau', 'ups']
    return [f'{prefix}{pool[i % len(pool)]}{i // len(pool) or ""}' for i in range(n)]


def main():
    shard, nshards, seed, tier = int(sys.argv[1]), int(sys.argv[2]), int(sys.argv[3]), sys.argv[4]
    import concepts as C
    from concepts import algorithms
    out = []

    def obs(call, fn):
        try:
            v = fn()
            text = v if isinstance(v, str) else repr(v)
        except Exception as exc:
            text = f'{type(exc).__name__}: {exc}'
        out.append({'call': call, 'obs': mask(text)})

    tables = corpus.structured(5) + list(corpus.randoms(60 if tier == 'quick' else 600, seed, 7, 7)) + \
        list(corpus.exhaustive([(2, 2), (2, 3)]))
    for b, t in enumerate(tables):
        if b % nshards != shard:
            continue
        ol, pl = names('o', t.n), names('p', t.m)
        ctx = C.Context(ol, pl, t.bools())
        k = f'ctx{b}'
        obs(k + '.str', lambda: str(ctx))
        for fmt in ('table', 'cxt', 'csv', 'python-literal', 'wiki-table'):
            obs(f'{k}.tostring.{fmt}', lambda: ctx.tostring(frmat=fmt))
        obs(k + '.todict', lambda: ctx.todict())
        obs(k + '.tojson', lambda: json.dumps(ctx.todict(), sort_keys=True))
        L = ctx.lattice
        obs(k + '.lattice.str', lambda: str(L))
        obs(k + '.lattice.order', lambda: [(c.index, c.dindex, c.extent, c.intent) for c in L])
        obs(k + '.lattice.links', lambda: [([u.index for u in c.upper_neighbors], [d.index for d in c.lower_neighbors],
                                              [a.index for a in c.atoms], c.objects, c.properties) for c in L])
        obs(k + '.lattice.upset', lambda: [[x.index for x in c.upset()] for c in L])
        obs(k + '.lattice.downset', lambda: [[x.index for x in c.downset()] for c in L])
        ms = list(L)
        obs(k + '.lattice.unions', lambda: [([x.index for x in L.upset_union([a, b2])],
                                               [x.index for x in L.downset_union([a, b2])])
                                              for a in ms[:6] for b2 in ms[-6:]])
        obs(k + '.lattice.joinmeet', lambda: [((a | b2).index, (a & b2).index) for a in ms[:8] for b2 in ms[:8]])
        obs(k + '.neighbors', lambda: [ctx.neighbors(ol[:i]) for i in range(min(t.n, 4) + 1)])
        obs(k + '.relations', lambda: repr(ctx.relations(include_unary=True)) + '\n' + str(ctx.relations()))
        obs(k + '.graphviz', lambda: L.graphviz().source)
        obs(k + '.fcbo', lambda: [(x.members(), i.members()) for x, i in algorithms.fast_generate_from(ctx)])
        obs(k + '.fcbo_dual', lambda: [(x.members(), i.members()) for x, i in algorithms.fcbo_dual(ctx)])
        obs(k + '.attributes', lambda: [list(c.attributes()) for c in ms if len(c.intent) <= 6])
        obs(k + '.definition', lambda: repr(ctx.definition()))
    # error messages that list names
    if shard == 0:
        obs('err.overlap', lambda: C.Context(['a', 'bb', 'ccc', 'dddd', 'e5'], ['bb', 'x', 'ccc', 'dddd', 'e5'],
                                             [(0,) * 5] * 5))
        obs('err.dupobj', lambda: C.Context(['a', 'b', 'a', 'b'], ['x'], [(0,)] * 4))
        obs('err.dupdef', lambda: C.Definition(['a', 'b', 'a', 'b'], ['x'], [(0,)] * 4))
        d = C.Definition(names('o', 6), names('p', 6), [tuple((i + j) % 2 == 0 for j in range(6)) for i in range(6)])
        obs('err.take', lambda: d.take(['q1', 'oalpha', 'q2', 'q3', 'q1'], ['r1', 'r2', 'palpha', 'r3']))
        e = C.Definition(names('o', 6), names('p', 6), [tuple((i * j) % 3 == 0 for j in range(6)) for i in range(6)])
        obs('take.reorder.props', lambda: repr(d.take(properties=names('p', 6)[::-1][:4], reorder=True)))
        obs('take.reorder.objs', lambda: repr(d.take(objects=names('o', 6)[::2], reorder=True)))
        obs('take.noreorder', lambda: repr(d.take(names('o', 6)[::-1], names('p', 6)[1:4])))
        obs('err.union', lambda: d.union(e))
        obs('err.inters', lambda: d & e)
        obs('err.remove', lambda: d.remove_object('nope'))
        obs('err.rename', lambda: d.rename_property('palpha', 'pbeta'))
        # queries naming several unknown labels (the KeyError names one of them)
        cu = C.Context(['a', 'b'], ['x', 'y'], [(1, 0), (0, 1)])
        obs('err.unknown.intension', lambda: cu.intension(['q1', 'a', 'q2', 'q3']))
        obs('err.unknown.extension', lambda: cu.extension(['r1', 'r2', 'r3']))
        obs('err.unknown.getitem', lambda: cu[('zz1', 'zz2', 'zz3')])
        obs('err.unknown.neighbors', lambda: cu.neighbors(['n1', 'n2', 'n3']))
        obs('err.unknown.single', lambda: cu.intension(['a', 'nope']))
        obs('err.fromdict.missing', lambda: C.Context.fromdict({'objects': ('a',)}))
        obs('err.fromdict.nonstring', lambda: C.Context.fromdict({'objects': ('a', 1, None), 'properties': ('x',),
                                                                 'context': [(), (), ()]}))
    # unions / intersections of large definitions (more than 64 / 128 names per axis)
    if shard in (1, 2):
        big = names('o', 150 if shard == 1 else 90)
        bigp = names('p', 140 if shard == 1 else 70)
        rng = random.Random(f'{seed}:big:{shard}')
        d1 = C.Definition(big[:100], bigp[:80], [tuple(rng.random() < 0.3 for _ in range(80)) for _ in range(100)])
        o2 = big[50:] + big[:10]
        p2 = bigp[40:] + bigp[:5]
        d2 = C.Definition(o2, p2, [tuple((d1[o, p] if o in big[:100] and p in bigp[:80] else rng.random() < 0.3)
                                         for p in p2) for o in o2])
        obs('big.union', lambda: repr(d1.union(d2).objects) + repr(d1.union(d2).properties) + d1.union(d2).crc32())
        obs('big.or', lambda: repr((d2 | d1).objects) + (d2 | d1).crc32())
        obs('big.inters', lambda: repr((d1 & d2).objects) + repr((d1 & d2).properties) + (d1 & d2).crc32())
        obs('big.take', lambda: repr(d1.take(big[90:40:-1], bigp[70:10:-2], reorder=True)))

        def upd():
            e = d1.copy()
            e |= d2
            e.add_object('zz', bigp[100:130])
            e.set_property('yy', big[100:145])
            return repr(e.objects) + repr(e.properties) + e.crc32()
        obs('big.ior', upd)
        obs('big.context', lambda: C.Context(*d1.union(d2)).crc32())
    # definition edit histories with several new names per call
    nh = 40 if tier == 'quick' else 400

    def kind(items, k):
        """The same ORDERED names as list / tuple / dict keys view / dict / one-shot generator (never a set)."""
        k %= 5
        if k == 1:
            return tuple(items)
        if k == 2:
            return dict.fromkeys(items).keys()
        if k == 3:
            return dict.fromkeys(items)
        if k == 4:
            return (x for x in items)
        return items
    pool_o, pool_p = names('o', 14) + [''], names('p', 14) + ['']
    for w in range(nh):
        if w % nshards != shard:
            continue
        rng = random.Random(f'{seed}:det:{w}')
        d = C.Definition()
        other = C.Definition(rng.sample(pool_o, 5), rng.sample(pool_p, 5),
                             [tuple(rng.random() < 0.5 for _ in range(5)) for _ in range(5)])
        for step in range(25):
            x = rng.randrange(14)
            try:
                if x >= 12:
                    # a call that raises inside the library (ill-typed names argument), caught by the caller, who
                    # goes on using the definition: whatever state it is left in is the same in every process
                    ps, os_ = rng.sample(pool_p, 3), rng.sample(pool_o, 3)
                    bad = [lambda: d.add_object(rng.choice(pool_o), [ps[0], [ps[1], ps[2]], ps[1]]),
                           lambda: d.set_object(rng.choice(pool_o), None),
                           lambda: d.add_property(rng.choice(pool_p), [os_[0], os_[1], {}, os_[2]]),
                           lambda: d.set_property(rng.choice(pool_p), 5),
                           lambda: d.set_object(rng.choice(d.objects) if d.objects else 'o', [ps[2], ps[0], [ps[1]]]),
                           lambda: d.rename_object([], 'x'), lambda: d.move_property(ps[0], 'first'),
                           lambda: d.union_update(None)][rng.randrange(8)]
                    try:
                        bad()
                    except Exception:
                        pass
                elif x == 0:
                    d.add_object(rng.choice(pool_o), kind(rng.sample(pool_p, rng.randint(0, 5)), step))
                elif x == 1:
                    d.add_property(rng.choice(pool_p), kind(rng.sample(pool_o, rng.randint(0, 5)), step))
                elif x == 2:
                    d.set_object(rng.choice(pool_o), kind(rng.sample(pool_p, rng.randint(0, 6)), step))
                elif x == 3:
                    d.set_property(rng.choice(pool_p), kind(rng.sample(pool_o, rng.randint(0, 6)), step))
                elif x == 4:
                    d[rng.choice(pool_o), rng.choice(pool_p)] = rng.random() < 0.7
                elif x == 5 and d.objects:
                    d.remove_object(rng.choice(d.objects))
                elif x == 6 and d.properties:
                    d.rename_property(rng.choice(d.properties), rng.choice(pool_p))
                elif x == 7 and d.objects:
                    d.move_object(rng.choice(d.objects), rng.randrange(len(d.objects)))
                elif x == 8:
                    d.union_update(other, ignore_conflicts=True)
                elif x == 9:
                    d = d | d.take(d.objects[:2]) if d.objects else d
                elif x == 10:
                    d.remove_empty_properties()
                else:
                    d = d.inverted().transposed().transposed()
            except ValueError:
                pass
            out.append({'call': f'hist{w}.{step}', 'obs': mask(repr(d) + '|' + d.tostring())})
    json.dump(out, sys.stdout)


if __name__ == '__main__':
    main()
