"""Check runner for C13 (Definition edit histories) and C14 (derivations, aliasing, Context<->Definition)."""
import json
import os
import re

import common
import run_trace

_HIST = re.compile(r'^<<"HIST", (".*")>>$', re.M)

ASSUME = [
    'TLC evaluates Definition.tla as written (tla2tools 1.8.0)',
    'the recorder projects a definition through objects/properties/bools only; hidden residue is probed through '
    'd == Definition(*d) (and !=, both directions) after every call',
    'copy.deepcopy of a Definition preserves its hidden state exactly (used to fork the live object for 2-step paths)',
    'bounded: complete one-step relation and 2-step paths over the listed universes, random histories beyond',
]


def jobs_for(prop, tier):
    T = 'TraceDef'
    cfg = 'TraceDef.cfg'
    w = 'rec_def_worker.py'
    base = ['--prop', prop]
    if prop == 'C13':
        if tier == 'quick':
            return [
                dict(name='edges-q22', script=w, args=base + ['--mode', 'edges', '--universe', 'q22'], module=T, cfg=cfg),
                dict(name='paths2-q22', script=w, args=base + ['--mode', 'paths2', '--universe', 'q22', '--fraction', '0.05'], module=T, cfg=cfg),
                dict(name='walks', script=w, args=base + ['--mode', 'walks', '--count', '2400', '--steps', '40'], module=T, cfg=cfg),
            ]
        return [
            dict(name='paths2-q22', script=w, args=base + ['--mode', 'paths2', '--universe', 'q22', '--fraction', '1.0'], module=T, cfg=cfg, shards=64),
            dict(name='edges-t33', script=w, args=base + ['--mode', 'edges', '--universe', 't33'], module=T, cfg=cfg, shards=128),
            dict(name='walks', script=w, args=base + ['--mode', 'walks', '--count', '16000', '--steps', '50'], module=T, cfg=cfg, shards=96),
        ]
    if tier == 'quick':
        return [
            dict(name='pairs-q21', script=w, args=base + ['--mode', 'pairs', '--universe', 'q21', '--stride', '5'], module=T, cfg=cfg),
            dict(name='walks', script=w, args=base + ['--mode', 'walks', '--count', '1600', '--steps', '40'], module=T, cfg=cfg),
        ]
    return [
        dict(name='pairs-q21', script=w, args=base + ['--mode', 'pairs', '--universe', 'q21'], module=T, cfg=cfg),
        dict(name='pairs-q22', script=w, args=base + ['--mode', 'pairs', '--universe', 'q22', '--fraction', '0.04'], module=T, cfg=cfg, shards=64),
        dict(name='walks', script=w, args=base + ['--mode', 'walks', '--count', '12000', '--steps', '50'], module=T, cfg=cfg, shards=96),
    ]


def run(prop, tier, seed, replay=None):
    design = [('MC_DefSys_quick', 'MC_DefSys_quick.cfg'), ('MC_DefinitionImpl', 'MC_DefinitionImpl_quick.cfg')]
    if tier == 'thorough':
        design.append(('MC_DefSys_thorough', 'MC_DefSys_thorough.cfg'))
        design.append(('MC_DefinitionImpl', 'MC_DefinitionImpl_thorough.cfg'))
    rule = ('edges: every well-formed definition over the universe (built with the public constructor) x every call '
            'instance of DefSys.tla\'s Calls; paths2: a second call instance applied to a deep copy of the live object '
            'that went through the first; walks: seeded random histories over 8+8 / 4+4 names with up to 5 live '
            'handles, derivations, freeze/thaw; pairs: all ordered pairs of definitions x derivation choices x single '
            'follow-up edits on source, operand or result. Every event is validated by TLC against TraceDef.tla. '
            'Non-trivial: a start state with at least one object and one property (edges/paths), a walk containing at '
            'least one rejected call, a pair with at least one true cell.')

    def post(verdict, tot, perjob, design_info):
        # cross-check: the harness's enumeration of the bounded universe = TLC's reachable state space
        if replay is None and tier == 'quick' and prop == 'C13':
            mc = next((d for d in design_info if d['module'] == 'MC_DefSys_quick'), None)
            pj = perjob.get('edges-q22', {})
            if mc and (mc['distinct_states'] != pj.get('states') or mc['states_generated'] - 1 != pj.get('edges')):
                raise common.MachineryError(
                    f"universe mismatch: TLC {mc['distinct_states']} states / {mc['states_generated'] - 1} transitions, "
                    f"harness {pj.get('states')} states / {pj.get('edges')} edges")

    jobs = jobs_for(prop, tier)
    prepare = None
    if prop == 'C13':
        num = 50 if tier == 'quick' else 250

        def prepare(work):
            # spec -> code: behaviours of DefSys.tla chosen by TLC's simulator, replayed on the real object
            r = common.run_tlc('MC_DefSys_thorough', 'SIM_DefSys.cfg', work, workers=1 if tier == 'quick' else 8,
                               extra_args=['-simulate', f'num={num}', '-depth', '13', '-seed', str(seed + 7)],
                               simulate=True, timeout=3000)
            hists = _HIST.findall(r['out'])
            if not r['completed'] or not hists:
                raise common.MachineryError('TLC simulation of DefSys produced no behaviours:\n' + r['out'][-2000:])
            with open(os.path.join(work, 'hists.jsonl'), 'w', encoding='utf-8') as f:
                for h in hists:
                    f.write(json.loads(h) + '\n')
            return 0, 0, [{'module': 'DefSys (simulate)', 'cfg': 'SIM_DefSys.cfg', 'behaviours_emitted': len(hists),
                           'depth': 12, 'wall_s': round(r['wall'], 1)}]
        jobs.append(dict(name='tlc-simulated', script='rec_def_worker.py',
                         args=['--prop', prop, '--mode', 'tlcwalks', '--cases', '{work}/hists.jsonl'],
                         module='TraceDef', cfg='TraceDef.cfg'))
    return run_trace.run(prop, tier, seed, jobs, own=(prop + '.',), design=design, replay=replay,
                         rule=rule, assumptions=ASSUME, post=post, prepare=prepare,
                         extra_cov={'exhaustive': True,
                                    'exhaustive_part': 'one-step relation over the bounded universe (cross-checked '
                                                       'against the number of states/transitions TLC reaches in DefSys.tla)'})
