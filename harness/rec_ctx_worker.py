"""Worker: record the context/lattice families of one property on one shard of its plan."""
import argparse
import json
import os
import random
import sys

sys.path.insert(0, os.path.dirname(os.path.abspath(__file__)))
sys.path.insert(0, os.environ.get('VERIF_REPO', '/repo'))

import corpus  # noqa: E402
import ctxplan  # noqa: E402
import rec_ctx  # noqa: E402


def main():
    ap = argparse.ArgumentParser()
    ap.add_argument('--prop', required=True)
    ap.add_argument('--tier', default='quick')
    ap.add_argument('--seed', type=int, default=0)
    ap.add_argument('--shard', type=int, default=0)
    ap.add_argument('--nshards', type=int, default=1)
    ap.add_argument('--out', required=True)
    ap.add_argument('--only', type=int, default=None, help='record only behaviour number B (replay)')
    ap.add_argument('--tables', default=None, help='exhaustive tables enumerated by TLC (TableGen.tla)')
    a = ap.parse_args()
    import concepts
    if not os.path.realpath(concepts.__file__).startswith(os.path.realpath(os.environ.get('VERIF_REPO', '/repo'))):
        raise SystemExit('wrong copy of concepts imported: ' + concepts.__file__)
    fams = ctxplan.FAMILIES[a.prop]
    items = ctxplan.plan(a.prop, a.tier, a.seed, ctxplan.load_tables(a.tables) if a.tables else None)
    stats = {'behaviours': 0, 'events': 0, 'nontrivial': 0, 'samples': [], 'exhaustive_tables': 0,
             'max_concepts': 0, 'max_width': 0}
    seen = set()
    with open(a.out, 'w', encoding='utf-8') as f:
        def emit(d):
            f.write(json.dumps(d, ensure_ascii=True, separators=(',', ':')) + '\n')
            stats['events'] += 1
        rec = rec_ctx.CtxRecorder(emit, concepts)
        for b, (table, exq, lv) in enumerate(items):
            if a.only is not None:
                if b != a.only:
                    continue
            elif b % a.nshards != a.shard:
                continue
            rng = random.Random(f'{a.seed}:{b}')
            if b % 3 == 1 and table.n * table.m <= 80 and a.prop != 'C15' and not table.tag.startswith('colossal'):
                # "late" scenario: build A, do nothing with it; build and query a sibling B with the same labels and
                # another table; only then run A's checked calls (its lattice is first computed AFTER B existed)
                rec.new(table, b, lv)
                sib = corpus.Table(table.n, table.m,
                                   [[j for j in range(1, table.m + 1) if j not in set(r)] for r in table.rows],
                                   table.tag + ':sibling-first')
                rec_b = rec_ctx.CtxRecorder(emit, concepts)
                rec_ctx.drive(rec_b, sib, b, fams, rng, False, nsub=3, nmulti=2, label_variant=lv)
                rec_ctx.drive(rec, table, b, fams, rng, exq, label_variant=lv, construct=False)
                del rec_b
                stats['behaviours'] += 1
                stats['exhaustive_tables'] += (table.tag[:2] == 'ex' and table.tag[2:3].isdigit())
                continue
            rec_ctx.drive(rec, table, b, fams, rng, exq, label_variant=lv)
            if b % 3 == 0 and table.n * table.m <= 80 and hasattr(rec, 'ctx') and a.prop != 'C15' \
                    and not table.tag.startswith('colossal'):
                # two live contexts with the SAME labels and different tables: build and query a sibling, then
                # query the older object again (class-level / label-keyed state shared between instances)
                sib = rec_ctx.crc_twin(concepts, rec.olabels, rec.plabels, table) if b % 2 == 0 else None
                if sib is None:
                    sib = corpus.Table(table.n, table.m,
                                       [[j for j in range(1, table.m + 1) if j not in set(r)] for r in table.rows],
                                       table.tag + ':sibling')
                rec_b = rec_ctx.CtxRecorder(emit, concepts)
                rec_ctx.drive(rec_b, sib, b, fams, rng, False, nsub=3, nmulti=2, label_variant=lv)
                rec_ctx.drive(rec, table, b, fams, rng, False, nsub=4, nmulti=2, label_variant=lv, construct=False)
                del rec_b
            if b % 3 == 2 and table.n * table.m <= 80 and hasattr(rec, 'ctx') \
                    and a.prop not in ('C15', 'C01', 'C04', 'C16') and not table.tag.startswith('colossal'):
                # the same checked calls on a lattice object that went through pickle / copy.copy / copy.deepcopy
                # (every statement about "the lattice" holds for a restored one as well)
                import copy
                import pickle
                try:
                    lat = rec.ctx.lattice
                    lat2 = (pickle.loads(pickle.dumps(lat, protocol=2 + (b // 3) % 4)), copy.copy(lat),
                            copy.deepcopy(lat))[(b // 3) % 3]
                    real = rec.ctx
                    rec.ctx = rec_ctx.LatShim(real, lat2)
                    rec._members = None
                    rec_ctx.drive(rec, table, b, fams, rng, False, nsub=3, nmulti=2, label_variant=lv, construct=False)
                    rec.ctx = real
                    rec._members = None
                except Exception as exc:
                    rec.ev('crash', prop=a.prop, call='restored-lattice', args=str(b), exc=type(exc).__name__,
                           msg=str(exc)[:300])
            nconc = len(rec._members) if rec._members is not None else 0
            if (b // 5) % 4 == 1 and 0 < nconc <= 150 \
                    and (table.tag[:2] != 'ex' or rec.counts.get('orphan_scenarios', 0) < 250) \
                    and getattr(rec, 'ctx', None) is not None \
                    and fams & {'C05', 'C06', 'C07', 'C08', 'C09', 'C10', 'C18'}:
                # the caller keeps only the concept objects: context and lattice are dropped and collected (a full
                # garbage collection per scenario: on the exhaustive small tables at most 250 per worker; spread over all shards)
                rec_ctx.drive_orphans(rec, table, b, fams, rng)
            stats['behaviours'] += 1
            stats['exhaustive_tables'] += (table.tag[:2] == 'ex' and table.tag[2:3].isdigit())
            key = (table.n, table.m, tuple(map(tuple, table.rows)))
            ncross = sum(map(len, table.rows))
            if key not in seen and 0 < ncross < table.n * table.m:
                seen.add(key)
                stats['nontrivial'] += 1
            stats['max_width'] = max(stats['max_width'], table.n, table.m)
            stats['max_concepts'] = max(stats['max_concepts'], nconc)
            if len(stats['samples']) < 2 and ncross:
                stats['samples'].append({'b': b, 'n': table.n, 'm': table.m, 'rows': table.rows, 'tag': table.tag})
    stats.update(rec.counts)
    print(json.dumps(stats))


if __name__ == '__main__':
    main()
