"""Worker for C19: feed (possibly ill-formed) inputs to Context(...) / Context.fromdict(...) and record outcomes.

Inputs come either from a cases file enumerated by TLC (ValSys.tla, spec -> code) or from seeded random
corruptions of larger valid inputs.
"""
import argparse
import json
import os
import random
import sys

sys.path.insert(0, os.path.dirname(os.path.abspath(__file__)))
sys.path.insert(0, os.environ.get('VERIF_REPO', '/repo'))


def py(atom):
    return {'s': atom['v'], 'i': atom['v'], 'n': None}[atom['t']]


def atom(x):
    if isinstance(x, str):
        return {'t': 's', 'v': x}
    if x is None:
        return {'t': 'n', 'v': 0}
    return {'t': 'i', 'v': int(x)}


class Obj:
    pass


CELLENC = [(0, 1), ('', 'X'), (None, Obj()), (False, True), (0.0, 2)]


def readback(ctx):
    objs, props, bools = ctx.objects, ctx.properties, ctx.bools
    return {'objs': [atom(o) for o in objs], 'props': [atom(p) for p in props],
            'cells': [[i + 1, j + 1] for i, row in enumerate(bools) for j, v in enumerate(row) if v],
            'nrows': len(bools), 'rowlens': [len(r) for r in bools]}


def run_triple(C, val, enc):
    f, t = CELLENC[enc % len(CELLENC)]
    objs = [py(a) for a in val['objs']]
    props = [py(a) for a in val['props']]
    rows = [tuple(t if c else f for c in r) for r in val['rows']]
    if enc % 2:
        objs, props = tuple(objs), tuple(props)
    # the constructor documents Iterable[str] names and an Iterable of row tuples: one-shot iterators in rotation
    k = enc % 7
    if k == 3:
        rows = iter(rows)
    elif k == 4:
        objs, props = iter(objs), (x for x in props)
    elif k == 5:
        objs, props, rows = (x for x in objs), iter(props), (r for r in rows)
    try:
        ctx = C.Context(objs, props, rows)
    except Exception as exc:
        return {'out': type(exc).__name__, 'msg': str(exc)[:120]}
    return {'out': 'ok', 'rb': readback(ctx)}


def valid_lattice(C, val):
    """A correct stored lattice for the document's context if that is well formed, else a placeholder."""
    try:
        objs = [py(a) for a in val['objs']]
        props = [py(a) for a in val['props']]
        bools = [tuple(j in r for j in range(len(props))) for r in map(set, val['ctx'])]
        return C.Context(objs, props, bools).todict()['lattice']
    except Exception:
        return [((), (0,), (), ())]


def run_doc(C, val):
    d = {}
    if val['has']['objects']:
        d['objects'] = tuple(py(a) for a in val['objs'])
    if val['has']['properties']:
        d['properties'] = tuple(py(a) for a in val['props'])
    if val['has']['context']:
        d['context'] = [tuple(r) for r in val['ctx']]
    if val['lat'] == 'present':
        d['lattice'] = valid_lattice(C, val)
    elif val['lat'] == 'empty':
        d['lattice'] = []
    try:
        ctx = C.Context.fromdict(d, ignore_lattice=val['ignore'], require_lattice=val['require'], raw=val['raw'])
    except Exception as exc:
        return {'out': type(exc).__name__, 'msg': str(exc)[:120]}
    return {'out': 'ok', 'rb': readback(ctx), 'haslat': 'lattice' in ctx.__dict__}


# ---------------------------------------------------------------- random corruptions of larger inputs
def rand_triple(rng):
    n, m = rng.randint(1, 6), rng.randint(1, 6)
    if rng.random() < 0.35:
        # distinct names that only differ by Unicode normal form / case / compatibility mapping are NOT duplicates
        import corpus
        objs, props = corpus.labels_for(n, m, 3)
        return {'objs': [atom(x) for x in objs], 'props': [atom(x) for x in props],
                'rows': [[int(rng.random() < 0.5) for _ in range(m)] for _ in range(n)]}
    return {'objs': [atom(f'o{i}') for i in range(n)], 'props': [atom(f'p{j}') for j in range(m)],
            'rows': [[int(rng.random() < 0.5) for _ in range(m)] for _ in range(n)]}


def corrupt_names(rng, v):
    objs, props = v['objs'], v['props']
    k = rng.randrange(8)
    if k == 0 and objs:
        del objs[rng.randrange(len(objs))]
    elif k == 1 and props:
        del props[rng.randrange(len(props))]
    elif k == 2 and objs:
        objs[rng.randrange(len(objs))] = dict(rng.choice(objs))
    elif k == 3 and props:
        props[rng.randrange(len(props))] = dict(rng.choice(props))
    elif k == 4 and objs and props:
        props[rng.randrange(len(props))] = dict(rng.choice(objs))
    elif k == 5 and objs and props:
        objs[rng.randrange(len(objs))] = dict(rng.choice(props))
    elif k == 6:
        objs.append(atom('extra'))
    else:
        props.append(dict(rng.choice(objs)) if objs else atom('extra'))


def corrupt_triple(rng, v):
    k = rng.randrange(6)
    rows = v['rows']
    if k == 0:
        corrupt_names(rng, v)
    elif k == 1 and rows:
        del rows[rng.randrange(len(rows))]
    elif k == 2 and rows:
        rows.append(list(rng.choice(rows)))
    elif k == 3 and rows:
        rows[rng.randrange(len(rows))].append(1)
    elif k == 4 and rows:
        r = rows[rng.randrange(len(rows))]
        if r:
            r.pop()
    elif rows and v['objs']:
        i = rng.randrange(min(len(rows), len(v['objs'])))
        del rows[i]
        del v['objs'][i]


def rand_doc(rng):
    t = rand_triple(rng)
    return {'has': {'objects': True, 'properties': True, 'context': True}, 'objs': t['objs'], 'props': t['props'],
            'ctx': [[j for j, c in enumerate(r) if c] for r in t['rows']],
            'lat': rng.choice(['absent', 'present']), 'ignore': rng.random() < 0.3, 'require': rng.random() < 0.3,
            'raw': rng.random() < 0.3}


def corrupt_doc(rng, v):
    k = rng.randrange(10)
    ctx = v['ctx']
    m = len(v['props'])
    if k == 0:
        corrupt_names(rng, v)
    elif k == 1:
        v['has'][rng.choice(['objects', 'properties', 'context'])] = False
    elif k == 2 and v['objs']:
        v['objs'][rng.randrange(len(v['objs']))] = rng.choice([atom(3), atom(None)])
    elif k == 3 and v['props']:
        v['props'][rng.randrange(len(v['props']))] = rng.choice([atom(0), atom(None)])
    elif k == 4 and ctx:
        del ctx[rng.randrange(len(ctx))]
    elif k == 5 and ctx:
        ctx.append(list(rng.choice(ctx)))
    elif k == 6 and ctx:
        r = ctx[rng.randrange(len(ctx))]          # a bad / repeated index at the front, strictly inside or at the end
        r.insert(rng.randrange(len(r) + 1), rng.choice([m, -1, m + 3, 0, m - 1]))
    elif k == 7:
        v['lat'] = rng.choice(['absent', 'present', 'empty'])
    elif k == 8:
        f = rng.choice(['ignore', 'require', 'raw'])
        v[f] = not v[f]
    elif ctx and v['objs']:
        i = rng.randrange(min(len(ctx), len(v['objs'])))
        del ctx[i]
        del v['objs'][i]


def main():
    ap = argparse.ArgumentParser()
    ap.add_argument('--mode', required=True, choices=['cases', 'random'])
    ap.add_argument('--cases', default=None)
    ap.add_argument('--count', type=int, default=1000)
    ap.add_argument('--seed', type=int, default=0)
    ap.add_argument('--shard', type=int, default=0)
    ap.add_argument('--nshards', type=int, default=1)
    ap.add_argument('--only', type=int, default=None)
    ap.add_argument('--out', required=True)
    a = ap.parse_args()
    import concepts as C
    if not os.path.realpath(C.__file__).startswith(os.path.realpath(os.environ.get('VERIF_REPO', '/repo'))):
        raise SystemExit('wrong copy of concepts imported: ' + C.__file__)
    stats = {'behaviours': 0, 'events': 0, 'nontrivial': 0, 'samples': [], 'rejected': 0, 'accepted': 0}
    seen = set()

    def mine(i):
        return i == a.only if a.only is not None else i % a.nshards == a.shard

    def cases():
        if a.mode == 'cases':
            with open(a.cases, encoding='utf-8') as f:
                for i, line in enumerate(f):
                    if mine(i):
                        c = json.loads(line)
                        yield i, c['kind'], c['val']
        else:
            for i in range(a.count):
                if not mine(i):
                    continue
                rng = random.Random(f'{a.seed}:val:{i}')
                kind = 'triple' if i % 2 else 'doc'
                v = rand_triple(rng) if kind == 'triple' else rand_doc(rng)
                for _ in range(rng.choice([0, 1, 1, 2, 2])):
                    (corrupt_triple if kind == 'triple' else corrupt_doc)(rng, v)
                yield i, kind, v

    with open(a.out, 'w', encoding='utf-8') as f:
        for i, kind, val in cases():
            if kind == 'triple':
                r = run_triple(C, val, i)
                ev = {'b': i, 'ev': 'val.triple', 'val': val, 'enc': i % len(CELLENC)}
            else:
                r = run_doc(C, val)
                ev = {'b': i, 'ev': 'val.doc', 'val': val}
            ev.update(r)
            f.write(json.dumps(ev, separators=(',', ':')) + '\n')
            stats['events'] += 1
            stats['behaviours'] += 1
            stats['accepted' if r['out'] == 'ok' else 'rejected'] += 1
            key = json.dumps(val, sort_keys=True)
            if key not in seen:
                seen.add(key)
                stats['nontrivial'] += r['out'] != 'ok'
            if len(stats['samples']) < 1 and r['out'] != 'ok':
                stats['samples'].append({'kind': kind, 'input': val, 'outcome': r['out']})
    print(json.dumps(stats))


if __name__ == '__main__':
    main()
