"""Recorder for the context / lattice query families (code -> spec).

Drives the real library through its public API only and writes one ndjson
event per call: arguments as given (1-based positions), outcome, projected
result.  The projections keep the *returned order*, so order claims are
checked by the specification, not assumed here.
"""
import itertools
import json
import operator
import random
import re
import sys


import contextlib
import os
import signal

CALL_TIMEOUT = int(os.environ.get('VERIF_CALL_TIMEOUT', '300' if os.environ.get('VERIF_TIER_RUNNING') == 'quick' else '1500'))


MAX_CONCEPTS = 400000     # the largest lattice of the corpus has 65 537 concepts


class ResultTooLarge(Exception):
    """A result far larger than any correct one can be (recorded like an exception on a valid input)."""


class CallTimeout(Exception):
    """A single library call did not return in time (recorded like any other exception on a valid input)."""


@contextlib.contextmanager
def watchdog(seconds):
    def onalarm(signum, frame):
        raise CallTimeout(f'no result after {seconds}s')
    old = signal.signal(signal.SIGALRM, onalarm)
    signal.alarm(seconds)
    try:
        yield
    finally:
        signal.alarm(0)
        signal.signal(signal.SIGALRM, old)


def vandalise(x):
    """A mutable result belongs to the caller: edit it in place (after it was recorded); later calls must not notice."""
    try:
        if isinstance(x, list):
            x.reverse()
            del x[len(x) // 2:]
            x.append(None)
        elif isinstance(x, (dict, set)):
            x.clear()
    except Exception:
        pass


class LatShim:
    """A context handle whose .lattice is a given (unpickled / copied) lattice object; everything else delegates."""

    def __init__(self, ctx, lattice):
        self.__dict__["_c"] = ctx
        self.__dict__["lattice"] = lattice

    def __getattr__(self, name):
        return getattr(self._c, name)

    def __getitem__(self, key, **kw):
        return self._c.__getitem__(key, **kw)


class OrphanShim:
    """What is left when a caller keeps only concept objects: no context, no lattice variable.  The lattice is
    reached through the public attribute ``Concept.lattice`` of a kept member, for the duration of one call."""

    def __init__(self, members):
        self.__dict__["_ms"] = members

    @property
    def lattice(self):
        return self._ms[0].lattice


class KeepShim(OrphanShim):
    """Stand-in for an orphan when the library version has no public ``Concept.lattice``: the context is kept."""

    def __init__(self, ctx):
        self.__dict__["_c"] = ctx

    @property
    def lattice(self):
        return self._c.lattice


def _positions(labels, pos):
    return [pos.get(x, -1) for x in labels]


class CtxRecorder:
    def __init__(self, emit, concepts_mod):
        self.emit = emit
        self.C = concepts_mod
        self.b = 0
        self._kind = 0
        self.counts = {}

    def arg(self, items):
        """The argument as one of several kinds of iterable (the API documents Iterable[str]): list, tuple,
        one-shot generator, iterator, dict keys view, set / frozenset."""
        self._kind += 1
        k = self._kind % 6
        items = list(items)
        if k == 1:
            return tuple(items)
        if k == 2:
            return (x for x in items)
        if k == 3:
            return iter(items)
        if k == 4 and len(set(map(id, items))) == len(items) and len(set(items)) == len(items):
            return dict.fromkeys(items).keys()
        if k == 5:
            # an unordered collection: every query this recorder makes is independent of argument order and repeats
            return frozenset(items) if self._kind % 12 == 5 else set(items)
        return items

    # ---------------------------------------------------------------- setup
    def new(self, table, b, label_variant=0):
        from corpus import labels_for
        n, m, rows, tag = table
        self.b = b
        self._kind = b          # argument kinds rotate deterministically per behaviour (replayable)
        self.table = table
        self.olabels, self.plabels = labels_for(n, m, label_variant)
        self.opos = {x: i + 1 for i, x in enumerate(self.olabels)}
        self.ppos = {x: j + 1 for j, x in enumerate(self.plabels)}
        bools = table.bools()
        self.ctx = None
        kind = b % 7
        if kind in (3, 5) and n * m <= 4000:
            # cells given as 1/0 (kind 3) or as counts 0 / k > 0 (kind 5) instead of True / False.  What the
            # constructor makes of such cells is not fixed by any property, so this is tolerant: the object is used
            # only if it is built and reports (.bools) the truthiness table; everything else is then judged on it.
            cells = [tuple((1 if kind == 3 else 2 + (3 * i + 5 * j) % 4) if x else 0 for j, x in enumerate(row))
                     for i, row in enumerate(bools)]
            try:
                cand = self.C.Context(self.olabels, self.plabels, cells)
                if [tuple(bool(x) for x in r) for r in cand.bools] == [tuple(r) for r in bools]:
                    self.ctx = cand
                    self.counts['int_cell_contexts'] = self.counts.get('int_cell_contexts', 0) + 1
            except Exception:
                self.ctx = None
        if self.ctx is None and kind == 2:
            # names and rows as one-shot iterators (documented: Iterable[str], Iterable of tuples)
            self.ctx = self.C.Context(iter(self.olabels), (x for x in self.plabels), iter(bools))
            self.counts['iterator_built_contexts'] = self.counts.get('iterator_built_contexts', 0) + 1
        if self.ctx is None:
            self.ctx = self.C.Context(self.olabels, self.plabels, bools)
        self._members = None
        vandalise(self.ctx.bools)           # the list returned by .bools is the caller's
        self.ev('ctx.new', n=n, m=m, rows=rows, tag=tag)
        return self.ctx

    def ev(self, _evname, **fields):
        d = {"b": self.b, "ev": _evname}
        d.update(fields)
        self.emit(d)

    def O(self, labels):
        return _positions(labels, self.opos)

    def P(self, labels):
        return _positions(labels, self.ppos)

    def olab(self, positions):
        return [self.olabels[i - 1] for i in positions]

    def plab(self, positions):
        return [self.plabels[j - 1] for j in positions]

    @property
    def members(self):
        if self._members is None:
            if len(self.ctx.lattice) > MAX_CONCEPTS:
                raise ResultTooLarge(f'lattice with {len(self.ctx.lattice)} members')
            self._members = list(self.ctx.lattice)
            self._ids = {id(c): i for i, c in enumerate(self._members)}
        return self._members

    def is_member(self, c):
        self.members
        return id(c) in self._ids

    def ext(self, c):
        return self.O(c.extent)

    # ------------------------------------------------------------------ C01
    def intension(self, objs, raw):
        r = self.ctx.intension(self.arg(self.olab(objs)), raw=raw)
        self.ev('intension', objs=objs, raw=raw, res=self.P(r.members() if raw else r))

    def extension(self, props, raw):
        r = self.ctx.extension(self.arg(self.plab(props)), raw=raw)
        self.ev('extension', props=props, raw=raw, res=self.O(r.members() if raw else r))

    # ------------------------------------------------------------------ C02
    def ctx_getitem(self, side, items, raw):
        labels = self.arg(self.olab(items) if side == 'o' else self.plab(items))    # incl. one-shot iterators (F6)
        if raw:
            x, i = self.ctx.__getitem__(labels, raw=True)
            x, i = x.members(), i.members()
        else:
            x, i = self.ctx[labels]
        self.ev('ctx.getitem', side=side, items=items, raw=raw, res=[self.O(x), self.P(i)])

    def lat_getitem(self, kind, items=(), i=None):
        lat = self.ctx.lattice
        members = self.members
        if kind == 'o':
            r = lat[tuple(self.olab(items))]
        elif kind == 'p':
            r = lat[tuple(self.plab(items))]
        elif kind == 'call':
            r = lat(tuple(self.plab(items)))
        elif kind == 'top':
            r = lat[()]
        elif kind == 'int':
            r = lat[i]
            self.ev('lattice.getitem', kind=kind, i=i, same=r is members[i])
            return
        self.ev('lattice.getitem', kind=kind, items=list(items), res=[self.O(r.extent), self.P(r.intent)],
                same=self.is_member(r))

    # ------------------------------------------------------------------ C03
    def lat_list(self):
        lat = self.ctx.lattice
        if len(lat) > MAX_CONCEPTS:
            raise ResultTooLarge(f'lattice with {len(lat)} members')
        self.ev('lattice.list', res=[[self.O(c.extent), self.P(c.intent)] for c in lat], len=len(lat))

    # ------------------------------------------------------------------ C04
    def gens(self):
        alg = sys.modules[self.C.__name__ + '.algorithms']
        for which, fn in (('fast_generate_from', alg.fast_generate_from), ('fcbo_dual', alg.fcbo_dual),
                          ('get_concepts', alg.get_concepts), ('iterconcepts', alg.iterconcepts)):
            res, budget = [], 1500000
            if self.b % 2 == 0:
                # a consumer that stops early, and a second generator started before the first one has finished
                g1, g2 = fn(self.ctx), fn(self.ctx)
                for _x in itertools.islice(g1, 2):
                    pass
                for _x in itertools.islice(g2, 1):
                    pass
                for _x in itertools.islice(g1, 1):
                    pass
                del g1, g2
            for x, i in itertools.islice(fn(self.ctx), 60000):     # cut runaway generators short
                pair = [self.O(x.members()), self.P(i.members())]
                res.append(pair)
                budget -= len(pair[0]) + len(pair[1])
                if budget < 0:
                    break
            self.ev('gen', which=which, res=res)

    # ------------------------------------------------------------------ C05
    def lat_links(self):
        ms = self.members
        self.ev('lattice.links', exts=[self.ext(c) for c in ms],
                up=[[self.ext(u) for u in c.upper_neighbors] for c in ms],
                lo=[[self.ext(d) for d in c.lower_neighbors] for c in ms])

    def neighbors(self, objs, raw):
        r = self.ctx.neighbors(self.arg(self.olab(objs)), raw=raw)
        if raw:
            res = [[self.O(x.members()), self.P(i.members())] for x, i in r]
        else:
            res = [[self.O(x), self.P(i)] for x, i in r]
        self.ev('neighbors', objs=objs, raw=raw, res=res)
        vandalise(r)

    # ------------------------------------------------------------------ C06
    def lat_order(self):
        lat = self.ctx.lattice
        ms = self.members
        self.members
        self.ev('lattice.order', exts=[self.ext(c) for c in ms],
                index=[c.index for c in ms], dindex=[c.dindex for c in ms],
                inf=self._ids.get(id(lat.infimum), -1), sup=self._ids.get(id(lat.supremum), -1),
                atoms=[self.ext(a) for a in lat.atoms])

    # ------------------------------------------------------------------ C07
    def joinmeet(self, name, form, idxs):
        lat = self.ctx.lattice
        ms = self.members
        args = [ms[i] for i in idxs]
        if form == 'nary':
            r = getattr(lat, name)(self.arg(args))
        elif form == 'method':
            r = getattr(args[0], name)(args[1])
        else:
            r = (args[0] | args[1]) if name == 'join' else (args[0] & args[1])
        self.ev(name, form=form, args=[self.ext(c) for c in args], res=self.ext(r), same=self.is_member(r))

    # ------------------------------------------------------------------ C08
    PREDS = [('le', operator.le), ('lt', operator.lt), ('ge', operator.ge), ('gt', operator.gt),
             ('implies', lambda x, y: x.implies(y)), ('properly_implies', lambda x, y: x.properly_implies(y)),
             ('subsumes', lambda x, y: x.subsumes(y)), ('properly_subsumes', lambda x, y: x.properly_subsumes(y)),
             ('incompatible_with', lambda x, y: x.incompatible_with(y)),
             ('complement_of', lambda x, y: x.complement_of(y)),
             ('subcontrary_with', lambda x, y: x.subcontrary_with(y)),
             ('orthogonal_to', lambda x, y: x.orthogonal_to(y))]

    def preds(self, rng=None):
        ms = self.members
        N = len(ms)
        exts = [self.ext(c) for c in ms]
        # every row of the predicate matrix on small lattices, a spread of rows (all columns) on large ones
        xs = list(range(N)) if N <= 72 or rng is None else sorted({0, 1, N - 1, N - 2, N // 2} | set(rng.sample(range(N), 24)))
        for name, fn in self.PREDS:
            rows = [[j for j, y in enumerate(ms) if fn(ms[x], y)] for x in xs]
            self.ev('pred', name=name, exts=exts, xs=xs, rows=rows)
        rows = [[j for j, y in enumerate(ms) if ms[x] <= y] for x in xs]
        self.ev('pred.intents', ints=[self.P(c.intent) for c in ms], xs=xs, rows=rows)

    # ------------------------------------------------------------------ C09
    def traverse(self, name, idxs):
        lat = self.ctx.lattice
        ms = self.members
        seeds = [ms[i] for i in idxs]
        self._kind += 1
        if self._kind % 4 == 0 and len(ms) > 2:
            # a consumer that stops early: start traversals, advance them a little, drop them
            for it0 in (ms[0].upset(), ms[-1].downset(), lat.upset_union(ms[:2]), lat.downset_union(ms[-2:])):
                for _x in itertools.islice(it0, 2):
                    pass
                del it0
        if name == 'upset':
            it, key = seeds[0].upset(), 'index'
        elif name == 'downset':
            it, key = seeds[0].downset(), 'dindex'
        elif name == 'upset_union':
            it, key = lat.upset_union(self.arg(seeds)), 'index'
        else:
            it, key = lat.downset_union(self.arg(seeds)), 'dindex'
        # a traversal can never yield more members than the lattice has; cut runaway generators short
        # (the repeats in the kept prefix already falsify the clause)
        if self._kind % 4 == 2 and len(ms) > 2:
            # a consumer that interleaves: while this traversal is suspended after each member, other traversals of
            # the same lattice (from that member, both directions, and a union) run to completion
            res = []
            for c in itertools.islice(it, 2 * len(ms) + 8):
                res.append(c)
                if len(res) <= 6:
                    for _x in c.upset():
                        pass
                    for _x in itertools.islice(c.downset(), 3):
                        pass
                    for _x in lat.upset_union([c, ms[len(ms) // 2]]):
                        pass
        else:
            res = list(itertools.islice(it, 2 * len(ms) + 8))
        self.ev(name, seeds=[self.ext(c) for c in seeds], res=[self.ext(c) for c in res],
                rank=[getattr(c, key) for c in res])

    # ------------------------------------------------------------------ C10
    def _str_labels(self, c):
        s = str(c)
        rest = s[s.index(']') + 1:]
        parts = rest.split(' <=> ')[1:]
        so, sp = [], []
        for part in parts:
            toks = part.split(' ')
            if toks and toks[0] in self.opos:
                so.extend(self.opos.get(t, -1) for t in toks)
            else:
                sp.extend(self.ppos.get(t, -1) for t in toks)
        return so, sp

    def lat_labels(self):
        lat = self.ctx.lattice
        ms = self.members
        strs = [self._str_labels(c) for c in ms]
        latlines = str(lat).split('\n')[1:]
        self.ev('lattice.labels', exts=[self.ext(c) for c in ms], ints=[self.P(c.intent) for c in ms],
                objects=[self.O(c.objects) for c in ms], properties=[self.P(c.properties) for c in ms],
                atoms=[[self.ext(a) for a in c.atoms] for c in ms],
                strobj=[s[0] for s in strs], strprop=[s[1] for s in strs],
                latstr=latlines == ['    ' + str(c) for c in ms],
                kinds=[type(c).__name__ for c in ms])

    # ------------------------------------------------------------------ C16
    def relations(self):
        for unary in (False, True):
            rel = self.ctx.relations(include_unary=unary)
            res = []
            for r in rel:
                right = self.ppos.get(r.right, -1) if r.right != '' else 0
                res.append([r.kind, self.ppos.get(r.left, -1), right])
            self.ev('relations', unary=unary, res=res)
            for which, excl in (('str', True), ('tostring', False), ('tostring_excl', True)):
                try:
                    if which == 'str':
                        s = str(rel)
                    elif which == 'tostring':
                        s = rel.tostring()
                    else:
                        s = rel.tostring(exclude_orthogonal=True)
                    out = 'ok'
                except Exception as exc:
                    out, s = type(exc).__name__, ''
                rows = []
                for line in s.split('\n'):
                    toks = line.split()
                    if not toks:
                        continue
                    left = self.ppos.get(toks[0], -1)
                    kind = toks[1] if len(toks) > 1 else ''
                    right = self.ppos.get(toks[2], -1) if len(toks) > 2 else 0
                    rows.append([kind, left, right])
                self.ev('relations.str', unary=unary, excl=excl, which=which, out=out, rows=rows)
            vandalise(rel)

    # ------------------------------------------------------------------ C18
    def upset_generalization(self, idxs):
        """Lattice.upset_generalization (experimental API): recorded for the observation clauses only."""
        lat = self.ctx.lattice
        ms = self.members
        seeds = [ms[i] for i in idxs]
        res = list(itertools.islice(lat.upset_generalization(self.arg(seeds)), 2 * len(ms) + 8))
        self.ev('upset_generalization', seeds=[self.ext(c) for c in seeds], res=[self.ext(c) for c in res],
                rank=[c.index for c in res])

    def attributes(self, idx):
        lat = self.ctx.lattice
        c = self.members[idx]
        if len(c.intent) > 12:
            gens = list(itertools.islice(c.attributes(), 400000))
            self.ev('attributes.big', c=self.ext(c), res=[self.P(g) for g in gens], minimal=self.P(c.minimal()))
            return
        if idx % 3 == 0:
            # two live iterators over the same concept BEFORE anything else consumed attributes() on it:
            # start one, run a second one past it, resume the first
            it1 = c.attributes()
            first = list(itertools.islice(it1, 1))
            second = list(itertools.islice(c.attributes(), 5000))
            first += list(itertools.islice(it1, 5000))
            for seq in (first, second):
                regen = [lat(g) for g in seq]
                self.ev('attributes', c=self.ext(c), res=[self.P(g) for g in seq],
                        regen=[self.ext(r) for r in regen], same=all(r is c for r in regen), interleaved=True)
        gens = list(itertools.islice(c.attributes(), 5000))
        regen = [lat(g) for g in gens]
        self.ev('attributes', c=self.ext(c), res=[self.P(g) for g in gens],
                regen=[self.ext(r) for r in regen], same=all(r is c for r in regen))
        self.ev('minimal', c=self.ext(c), res=self.P(c.minimal()))
    # ------------------------------------------------------------------ C20
    _edge = re.compile(r'^\t(\S+) -> (\S+)(?: \[(.*)\])?$')
    _node = re.compile(r'^\t(\S+)(?: \[(.*)\])?$')
    _attr = re.compile(r'(\w+)=("(?:[^"\\]|\\.)*"|[^\s\]]+)')

    @staticmethod
    def _unquote(v):
        if v.startswith('"') and v.endswith('"'):
            return v[1:-1].replace('\\"', '"')
        return v

    def graphviz(self, mode):
        lat = self.ctx.lattice
        ms = self.members
        calls = {}

        def mk(prefix, pos):
            def cb(names):
                names = tuple(names)
                text = prefix + '_'.join(str(pos.get(x, -1)) for x in names)
                calls[text] = [pos.get(x, -1) for x in names]
                return text
            return cb

        cbo, cbp = mk('O', self.opos), mk('P', self.ppos)
        if mode == 'callbacks':
            dot = lat.graphviz(make_object_label=cbo, make_property_label=cbp)
        elif mode == 'only-object-callback':
            dot = lat.graphviz(make_object_label=cbo)
        elif mode == 'only-property-callback':
            dot = lat.graphviz(make_property_label=cbp)
        elif mode == 'again-after-abort':
            # a drawing aborted half-way by an exception from the caller's own label callback (caught by the caller)
            # must leave nothing behind: the next drawing is complete
            class Abort(Exception):
                pass
            for limit in (1, 2 + self.b % 3, len(ms) // 2 + 1):
                left = [limit]

                def boom(names, left=left):
                    left[0] -= 1
                    if left[0] <= 0:
                        raise Abort()
                    return 'x'
                for kw in ({'make_object_label': boom}, {'make_property_label': boom},
                           {'make_object_label': boom, 'make_property_label': boom}):
                    left[0] = limit
                    try:
                        lat.graphviz(**kw)
                    except Abort:
                        pass
            dot = lat.graphviz(make_object_label=cbo, make_property_label=cbp)
        elif mode == 'again-after-edit':
            # the returned Digraph is the caller's to change; a later call must draw the lattice afresh
            first = lat.graphviz(make_object_label=cbo, make_property_label=cbp)
            first.node('c0', color='red')
            first.edge('c0', 'c0', headlabel='mine')
            first.body.append('\tzz\n')
            d2 = lat.graphviz()
            d2.body.clear()
            for kw in ({'node_attr': {'shape': 'box', 'label': 'n'}, 'edge_attr': {'dir': 'back'}},
                       {'format': 'svg', 'engine': 'neato'}, {'graph_attr': {'rankdir': 'LR'}},
                       {'filename': 'x.gv', 'directory': self.b and None}):
                try:                                  # options the installed version may or may not accept
                    lat.graphviz(**kw)
                except Exception:
                    pass
            dot = lat.graphviz(make_object_label=cbo, make_property_label=cbp)
        else:
            dot = lat.graphviz()
        nodes, edges, hl, tl, extra = [], [], [], [], 0

        def num(name):
            return int(name[1:]) if re.fullmatch(r'c\d+', name) else -1

        for line in dot.body:
            line = line.rstrip('\n')
            me = self._edge.match(line)
            if me:
                t, h, attrs = me.group(1), me.group(2), me.group(3)
                if attrs is None:
                    edges.append([num(t), num(h)])
                    continue
                a = {k: self._unquote(v) for k, v in self._attr.findall(attrs)}
                if t == h and ('headlabel' in a) != ('taillabel' in a):
                    which, pos = ('headlabel', self.opos) if 'headlabel' in a else ('taillabel', self.ppos)
                    text = a[which]
                    by_callback = mode not in ('default', 'only-property-callback' if which == 'headlabel'
                                               else 'only-object-callback')
                    if by_callback:
                        rec = [num(t), calls.get(text, [-1]), text, text if text in calls else '?']
                    else:
                        names = text.split(' ')
                        rec = [num(t), [pos.get(x, -1) for x in names], text, ' '.join(names)]
                    (hl if which == 'headlabel' else tl).append(rec)
                else:
                    extra += 1
                continue
            mn = self._node.match(line)
            if mn and mn.group(2) is None:
                nodes.append(num(mn.group(1)))
            elif mn and re.fullmatch(r'c\d+', mn.group(1)):
                nodes.append(num(mn.group(1)))      # a concept node with attributes is still that node
            # any other statement (attribute defaults, comments, subgraphs) is not an edge and not counted
        undirected = False
        for line in dot.source.split('\n'):
            if line.startswith('\tedge ['):
                a = dict(self._attr.findall(line))
                undirected = a.get('dir') == 'none'
        self.ev('graphviz', mode=mode, exts=[self.ext(c) for c in ms], nodes=nodes, edges=edges,
                hl=hl, tl=tl, extra=extra, undirected=undirected)


    # ------------------------------------------------ very large lattices (relational clauses, no oracle lattice)
    def rel_base(self):
        lat = self.ctx.lattice
        ms = self.members
        self.ev('rel.base', exts=[self.ext(c) for c in ms], index=[c.index for c in ms],
                dindex=[c.dindex for c in ms], latatoms=[self._ids.get(id(a), -1) for a in lat.atoms],
                inf=self._ids.get(id(lat.infimum), -1), sup=self._ids.get(id(lat.supremum), -1))

    def _spread(self, rng, k):
        N = len(self.members)
        pts = {0, 1, 2, N - 1, N - 2, N - 3, N // 2} | {p for p in (255, 256, 257, 511, 512, 513, 65535, 65536, 65537,
                                                                   65538, 65539, 65540, 131071) if p < N}
        pts |= set(rng.sample(range(N), min(k, N)))
        return sorted(p for p in pts if 0 <= p < N)

    def rel_order(self, rng):
        self.ev('rel.order', xs=self._spread(rng, 12))

    def rel_pred(self, rng):
        ms = self.members
        xs = self._spread(rng, 6)
        for name, fn in self.PREDS:
            self.ev('rel.pred', name=name, xs=xs, rows=[[j for j, y in enumerate(ms) if fn(ms[x], y)] for x in xs])

    def rel_joinmeet(self, rng):
        lat = self.ctx.lattice
        ms = self.members
        N = len(ms)
        self.members
        for a, b2 in pick_pairs(N, rng, 60)[:400]:
            for name, form in (('join', 'nary'), ('meet', 'op'), ('join', 'op'), ('meet', 'nary')):
                x, y = ms[a], ms[b2]
                if form == 'nary':
                    r = getattr(lat, name)(self.arg([x, y]))
                else:
                    r = (x | y) if name == 'join' else (x & y)
                self.ev('rel.joinmeet', name=name, form=form, args=[a, b2], res=self._ids.get(id(r), -1),
                        same=id(r) in self._ids)

    def rel_traverse(self, rng):
        lat = self.ctx.lattice
        ms = self.members
        N = len(ms)
        for x in self._spread(rng, 4)[:12]:
            for name, it, key, up in (('upset', ms[x].upset(), 'index', True), ('downset', ms[x].downset(), 'dindex', False)):
                res = list(itertools.islice(it, 2 * N + 8))
                self.ev('rel.traverse', name=name, up=up, seeds=[x], res=[self._ids.get(id(c), -1) for c in res],
                        rank=[getattr(c, key) for c in res])
        y, z = rng.randrange(N), rng.randrange(N)
        for name, it, key, up in (('upset_union', lat.upset_union([ms[y], ms[z], ms[y]]), 'index', True),
                                  ('downset_union', lat.downset_union(iter([ms[y], ms[z]])), 'dindex', False)):
            res = list(itertools.islice(it, 2 * N + 8))
            self.ev('rel.traverse', name=name, up=up, seeds=[y, z], res=[self._ids.get(id(c), -1) for c in res],
                    rank=[getattr(c, key) for c in res])

    def rel_labels(self, rng):
        ms = self.members
        self.ev('rel.labels', olabelled=[[i, self.O(c.objects)] for i, c in enumerate(ms) if c.objects],
                plabelled=[[i, self.P(c.properties)] for i, c in enumerate(ms) if c.properties],
                atoms=[[x, [self._ids.get(id(a), -1) for a in ms[x].atoms]] for x in self._spread(rng, 40)])

    # ------------------------------------------------------------------ C15
    def _lat_obs(self, ctx, omap, pmap, pairs_of):
        """Observation of a lattice in a given coordinate system (label -> position maps)."""
        alg = sys.modules[self.C.__name__ + '.algorithms']
        L = ctx.lattice
        ms = list(L)

        def O(labels):
            return [omap.get(x, -1) for x in labels]

        def P(labels):
            return [pmap.get(x, -1) for x in labels]
        c = [[O(x.extent), P(x.intent)] for x in ms]
        cov = [[O(lo.extent), O(up.extent), P(lo.intent), P(up.intent)] for up in ms for lo in up.lower_neighbors]
        jm = []
        for a, b in pairs_of(L, ms):
            j, mt = a | b, a & b
            jm.append([O(a.extent), O(b.extent), O(j.extent), O(mt.extent),
                       P(a.intent), P(b.intent), P(j.intent), P(mt.intent)])
        rel = [[r.kind, pmap.get(r.left, -1), pmap.get(r.right, -1)] for r in ctx.relations()]
        g1 = [[O(x.members()), P(i.members())] for x, i in alg.fast_generate_from(ctx)]
        g2 = [[O(x.members()), P(i.members())] for x, i in alg.fcbo_dual(ctx)]
        return c, cov, jm, rel, g1, g2

    def rel_lite(self, rng):
        """Row / column permutation of a very large lattice: the same label-level joins and meets on both sides."""
        C = self.C
        ol, pl = list(self.olabels), list(self.plabels)
        ol.reverse()
        rng.shuffle(pl)
        ctx2 = C.Context(*self.ctx.definition().take(objects=ol, properties=pl, reorder=True))
        ms1 = self.members
        L2 = ctx2.lattice
        N = len(ms1)
        idx = [(a, b2) for a in self._spread(rng, 25) for b2 in self._spread(rng, 25)]

        def obs(pairs):
            out = []
            for a, b2 in pairs:
                j, mt = a | b2, a & b2
                out.append([self.O(a.extent), self.O(b2.extent), self.O(j.extent), self.O(mt.extent),
                            self.P(a.intent), self.P(b2.intent), self.P(j.intent), self.P(mt.intent)])
            return out
        jm1 = obs([(ms1[a], ms1[b2]) for a, b2 in idx])
        jm2 = obs([(L2(ms1[a].intent), L2(ms1[b2].intent)) for a, b2 in idx])
        self.ev('rel', kind='perm-lite', t2={'n': 1, 'm': 1, 'rows': [[]]}, c1=[], c2=[], jm1=jm1, jm2=jm2,
                n1=N, n2=len(L2))

    def rel(self, kind, rng, i=None, j=None, perm=None):
        C = self.C
        n, m = self.table.n, self.table.m
        d = self.ctx.definition()
        params = {}
        omap, pmap = dict(self.opos), dict(self.ppos)
        relabel = {}
        if kind == 'perm':
            ol, pl = list(self.olabels), list(self.plabels)
            if perm is None:
                rng.shuffle(ol)
                rng.shuffle(pl)
            else:
                ol = [ol[k] for k in perm[0]]
                pl = [pl[k] for k in perm[1]]
            self._kind += 1
            if self._kind % 2:
                d2 = d.take(objects=ol, properties=pl, reorder=True)
            else:
                # the same rearrangement the way a user edits a definition: move_* into place, then exchange the
                # labels of two rows and of two columns through a temporary name (the old label comes back)
                d2 = d.copy()
                for k, x in enumerate(ol):
                    d2.move_object(x, k)
                for k, x in enumerate(pl):
                    d2.move_property(x, k)
                if n >= 2:
                    a, b2 = ol[0], ol[-1]
                    d2.rename_object(a, 'TMPNAME')
                    d2.rename_object(b2, a)
                    d2.rename_object('TMPNAME', b2)
                    omap[a], omap[b2] = omap[b2], omap[a]
                if m >= 2:
                    a, b2 = pl[0], pl[-1]
                    d2.rename_property(a, 'TMPNAME')
                    d2.rename_property(b2, a)
                    d2.rename_property('TMPNAME', b2)
                    pmap[a], pmap[b2] = pmap[b2], pmap[a]
                    relabel[a], relabel[b2] = b2, a
            params = {'pi': [omap[x] for x in d2.objects], 'rho': [pmap[x] for x in d2.properties]}
        elif kind == 'transpose':
            d2 = d.transposed()
            omap, pmap = dict(self.ppos), dict(self.opos)
        elif kind == 'duprow':
            d2 = d.copy()
            d2.add_object('NEWOBJ', [p for p, v in zip(self.plabels, self.ctx.bools[i - 1]) if v])
            omap['NEWOBJ'] = n + 1
            params = {'i': i}
        elif kind == 'dupcol':
            d2 = d.copy()
            d2.add_property('NEWPROP', [o for o, row in zip(self.olabels, self.ctx.bools) if row[j - 1]])
            pmap['NEWPROP'] = m + 1
            params = {'j': j}
        else:
            d2 = d.copy()
            d2.add_property('NEWPROP', list(self.olabels))
            pmap['NEWPROP'] = m + 1
        ctx2 = C.Context(*d2)
        # the same label-level pairs in both lattices
        ms1 = list(self.ctx.lattice)
        N = len(ms1)
        idx = [(a, b) for a in range(N) for b in range(N)]
        if len(idx) > 49:
            idx = rng.sample(idx, 49)

        def pairs1(L, ms):
            return [(ms[a], ms[b]) for a, b in idx]

        def pairs2(L, ms):
            if kind == 'perm':
                return [(L(tuple(relabel.get(x, x) for x in ms1[a].intent)),
                         L(tuple(relabel.get(x, x) for x in ms1[b].intent))) for a, b in idx]
            if kind == 'transpose':     # the dual concept has the old extent as its intent
                return [(L(ms1[a].extent), L(ms1[b].extent)) for a, b in idx]
            return []
        c1, cov1, jm1, rel1, g1, _ = self._lat_obs(self.ctx, self.opos, self.ppos, pairs1)
        c2, cov2, jm2, rel2, g2a, g2b = self._lat_obs(ctx2, omap, pmap, pairs2)
        o2 = {x: k + 1 for k, x in enumerate(ctx2.objects)}
        t2 = {'n': len(ctx2.objects), 'm': len(ctx2.properties),
              'rows': [[k + 1 for k, v in enumerate(row) if v] for row in ctx2.bools]}
        self.ev('rel', kind=kind, t2=t2, c1=c1, c2=c2, cov1=cov1, cov2=cov2, jm1=jm1, jm2=jm2, rel1=rel1, rel2=rel2,
                g2a=g2a, g2b=g2b, **params)


def crc_twin(C, objs, props, table):
    """A DIFFERENT table over the same labels whose Context.crc32() equals the given table's (public API only).

    CRC32 is affine over GF(2) for messages of equal length, and the table text has a fixed layout, so toggling a
    suitable set of cells never changes the checksum; with more than 32 cells such a set exists.  Returns None
    for smaller tables.  Contexts like these are what a cache keyed by the checksum shown in repr() conflates."""
    n, m = table.n, table.m
    cells = [(i, j) for i in range(n) for j in range(m)]
    if len(cells) < 34:
        return None

    def crc(on):
        bools = [tuple((i, j) in on for j in range(m)) for i in range(n)]
        return int(C.Context(objs, props, bools).crc32(), 16)
    base = crc(set())
    basis = {}          # leading bit -> (vector, set of cells)
    for c in cells[:40]:
        v, used = crc({c}) ^ base, {c}
        while v:
            hb = v.bit_length() - 1
            if hb not in basis:
                basis[hb] = (v, used)
                break
            bv, bu = basis[hb]
            v ^= bv
            used = used ^ bu
        else:
            if used:
                rows = [sorted(set(r) ^ {j + 1 for (i2, j) in used if i2 == i}) for i, r in enumerate(table.rows)]
                import corpus
                return corpus.Table(n, m, rows, table.tag + ':crc-twin')
    return None


# -------------------------------------------------------------------- plans
def subsets_all(n):
    for r in range(n + 1):
        for comb in itertools.combinations(range(1, n + 1), r):
            yield list(comb)


def scramble(sub, rng):
    """The same set as a list with repeats, in scrambled order."""
    s = list(sub)
    if s and rng.random() < 0.5:
        s.extend(rng.choice(s) for _ in range(rng.randint(1, 2)))
    rng.shuffle(s)
    return s


def sample_subsets(n, count, rng):
    out = [[], list(range(1, n + 1)), [1], [n]]
    for _ in range(count):
        k = rng.randint(1, n)
        out.append(sorted(rng.sample(range(1, n + 1), k)))
    return out


def pick_pairs(N, rng, limit):
    """All ordered pairs on small lattices; on large ones whole rows/columns of the pair matrix for a few
    members (first, second, last, middle, around 255/256/257 and 511/512) plus a random sample."""
    if N * N <= limit:
        return list(itertools.product(range(N), repeat=2))
    anchors = sorted({0, 1, 2, N - 1, N // 2} | {k for k in (255, 256, 257, 511, 512, 1023) if k < N})
    out = set()
    step = max(1, N // 96)
    for a in anchors:
        for j in list(range(0, N, step)) + [k for k in (254, 255, 256, 257, 258, 510, 511, 512, 513) if k < N]:
            out.add((a, j))
            out.add((j, a))
    target = min(N * N, limit + 2 * len(anchors) * (N // step))
    while len(out) < target:
        out.add((rng.randrange(N), rng.randrange(N)))
    return sorted(out)


def drive_orphans(rec, table, b, families, rng, keep=False):
    """Concept objects that outlive every other reference of the caller to their lattice and context (those are
    dropped and the garbage collector is run) keep answering: predicates, joins / meets, traversals, links, labels,
    generating sets.  Runs as the last step of a behaviour; the recorder gets a new context afterwards."""
    import gc
    prop = sorted(families)[0][:3]

    def T(fn, *args, **kw):
        try:
            with watchdog(CALL_TIMEOUT):
                fn(*args, **kw)
            return True
        except Exception as exc:  # noqa
            rec.ev('crash', prop=prop, call='orphans.' + fn.__name__, args=repr((args, kw))[:300],
                   exc=type(exc).__name__, msg=str(exc)[:300])
            return False

    ms = rec.members
    N = len(ms)
    if not isinstance(rec.ctx, OrphanShim) and getattr(ms[0], 'lattice', None) is not rec.ctx.lattice:
        return          # this version does not expose Concept.lattice: lattice-level calls cannot be made from a member
    rec.b = b
    rec.counts['orphan_scenarios'] = rec.counts.get('orphan_scenarios', 0) + 1
    rec.ev('ctx.new', n=table.n, m=table.m, rows=table.rows, tag=table.tag + ':orphaned-concepts')
    if not isinstance(rec.ctx, OrphanShim):
        rec.ctx = OrphanShim(ms)
    gc.collect()
    T(rec.lat_list)
    if 'C05' in families or 'C06' in families:
        T(rec.lat_links)
    if 'C06' in families:
        T(rec.lat_order)
    if 'C07' in families:
        for i, j in pick_pairs(N, rng, 12):
            for name in ('join', 'meet'):
                T(rec.joinmeet, name, 'method', [i, j])
                T(rec.joinmeet, name, 'op', [i, j])
                T(rec.joinmeet, name, 'nary', [i, j, i])
    if 'C08' in families:
        T(rec.preds, rng)
    if 'C09' in families:
        for i in (range(N) if N <= 12 else sorted({0, 1, N - 1, N // 2})):
            T(rec.traverse, 'upset', [i])
            T(rec.traverse, 'downset', [i])
        T(rec.traverse, 'upset_union', [0, N - 1, N // 2])
        T(rec.traverse, 'downset_union', [N - 1, N // 2])
    if 'C10' in families:
        T(rec.lat_labels)
    if 'C18' in families and table.m <= 10:
        for i in (range(N) if N <= 8 else sorted({0, 1, N - 1, N // 2})):
            T(rec.attributes, i)
    if not keep:
        rec.ctx = None
        rec._members = None


def abort_drawing(rec):
    """lattice.graphviz() aborted by an exception from the caller's own label callback; returns how often."""
    class Abort(Exception):
        pass
    lat = rec.ctx.lattice
    n = 0
    for limit in (1, 2, len(lat) // 2 + 1):
        left = [limit]

        def boom(names):
            left[0] -= 1
            if left[0] <= 0:
                raise Abort()
            return 'x'
        for kw in ({'make_object_label': boom}, {'make_property_label': boom}):
            left[0] = limit
            try:
                lat.graphviz(**kw)
            except Abort:
                n += 1
    return n


def drive(rec, table, b, families, rng, exhaustive_queries, nsub=10, nmulti=12, label_variant=0, construct=True,
          touch_cached=True):
    """Record one behaviour: construct the context, then the calls of the requested families."""
    n, m = table.n, table.m
    prop = sorted(families)[0][:3]

    def T(fn, *args, **kw):
        """A library call that raises on valid input is recorded, not propagated: the spec judges it."""
        try:
            with watchdog(CALL_TIMEOUT):
                fn(*args, **kw)
            return True
        except Exception as exc:  # noqa
            rec.ev('crash', prop=prop, call=fn.__name__, args=repr((args, kw))[:300],
                   exc=type(exc).__name__, msg=str(exc)[:300])
            return False

    if construct:
        if not T(rec.new, table, b, label_variant):
            return
    else:
        # re-query an OLDER, still live context object after other contexts with the same labels were built
        rec.b = b
        rec.ev('ctx.new', n=n, m=m, rows=table.rows, tag=table.tag + ':requery-live-object')
    if exhaustive_queries and n <= 5 and m <= 5:
        osubs = list(subsets_all(n))
        psubs = list(subsets_all(m))
    else:
        import corpus
        osubs = corpus.wide_subsets(n, rng) if n > 20 else sample_subsets(n, nsub, rng)
        psubs = corpus.wide_subsets(m, rng) if m > 20 else sample_subsets(m, nsub, rng)
    lattice_fams = {'C02L', 'C03', 'C05', 'C06', 'C07', 'C08', 'C09', 'C10', 'C15', 'C18', 'C20'}
    if table.tag.startswith(('widecontra', 'wideanti', 'widerand', 'giant')):
        # astronomically many concepts (or a giant axis): derivations only; the giant tables keep the generators
        families = families - lattice_fams - ({'C05'} if table.tag.startswith('giant') else {'C04', 'C05'})
    if table.tag.startswith('colossal'):
        # very large lattice: relational families only (TraceCtx TrRel*), the library's own lattice as base
        T(rec.rel_base)
        for fam, fn in (('C06', rec.rel_order), ('C07', rec.rel_joinmeet), ('C08', rec.rel_pred),
                        ('C09', rec.rel_traverse), ('C10', rec.rel_labels), ('C15', rec.rel_lite)):
            if fam in families:
                T(fn, rng)
        return
    nolattice = table.tag.startswith(('widecontra', 'wideanti', 'widerand', 'giant'))
    nolattice0 = table.tag.startswith(('widecontra', 'wideanti', 'widerand', 'giant'))
    if b % 5 == 0 and hasattr(rec, 'ctx'):
        # calls that fail (unknown labels, wrong types) before the checked calls: a rejected call must leave
        # nothing behind that changes later answers
        for bad in (lambda: rec.ctx.intension(['<no such object>']), lambda: rec.ctx.extension(['<no such property>']),
                    lambda: rec.ctx[('<neither>',)], lambda: rec.ctx.neighbors(['<no such object>']),
                    lambda: rec.ctx.intension([rec.olabels[0], '<no such object>']),
                    lambda: rec.ctx.extension(rec.olabels[:1]), lambda: rec.ctx.intension(rec.plabels[:1]),
                    lambda: rec.ctx.intension([None]), lambda: rec.ctx.tostring(frmat='no-such-format'),
                    lambda: rec.ctx.lattice['<neither>',] if (families & lattice_fams and not nolattice0) else None,
                    lambda: rec.ctx.lattice(['<no such property>']) if (families & lattice_fams and not nolattice0) else None,
                    lambda: rec.ctx.lattice[10 ** 9] if (families & lattice_fams and not nolattice0) else None):
            try:
                bad()
            except Exception:
                pass
    if 'C05' in families and b % 2 == 0:
        # the lazy lattice is state: query the covers BEFORE it is computed on half of the behaviours ...
        for s in osubs:
            T(rec.neighbors, scramble(s, rng), raw=False)
    if families & lattice_fams and b % 2 == 0 and not nolattice:
        # lattice-free calls BEFORE the lattice is first computed (anything they leave behind must not change it)
        for s0 in ([], list(range(1, n + 1)), [1], [n]):
            T(rec.intension, list(s0), raw=False)
        for s0 in ([], list(range(1, m + 1)), [1], [m]):
            T(rec.extension, list(s0), raw=(b % 4 == 0))
        T(rec.ctx_getitem, 'o', [1], raw=False)
        T(rec.ctx_getitem, 'p', [m], raw=True)
        T(rec.neighbors, [], raw=False)
        T(rec.relations)
    if families & lattice_fams:
        T(rec.lat_list)          # first touch of the lazy lattice; the iteration is the index base
    elif touch_cached and b % 2 == 1 and not nolattice and min(n, m) <= 12:
        # ... and run the lattice-free calls on a handle whose lattice is already cached on the other half
        T(rec.lat_list)
    if 'C01' in families:
        for s in osubs:
            T(rec.intension, scramble(s, rng), raw=False)
            T(rec.intension, scramble(s, rng), raw=True)
        for s in psubs:
            T(rec.extension, scramble(s, rng), raw=False)
            T(rec.extension, scramble(s, rng), raw=True)
    if 'C02' in families:
        for s in osubs:
            if s:
                T(rec.ctx_getitem, 'o', scramble(s, rng), raw=False)
                T(rec.ctx_getitem, 'o', scramble(s, rng), raw=True)
        for s in psubs:
            if s:
                T(rec.ctx_getitem, 'p', scramble(s, rng), raw=False)
                T(rec.ctx_getitem, 'p', scramble(s, rng), raw=True)
    if 'C02L' in families:
        for s in osubs:
            if s:
                T(rec.lat_getitem, 'o', scramble(s, rng))
        for s in psubs:
            if s:
                T(rec.lat_getitem, 'p', scramble(s, rng))
            T(rec.lat_getitem, 'call', scramble(s, rng))
        T(rec.lat_getitem, 'top')
        try:
            N = len(rec.members)
        except Exception:
            N = 0
        for i in (range(N) if N <= 40 else sorted({0, 1, N // 2, N - 2, N - 1})):
            T(rec.lat_getitem, 'int', i=i)
    if 'C04' in families:
        T(rec.gens)
        if not nolattice:
            T(rec.lat_list)
    if 'C05' in families:
        T(rec.lat_links)
        for s in osubs:
            T(rec.neighbors, scramble(s, rng), raw=False)
        for s in osubs[:4]:
            T(rec.neighbors, scramble(s, rng), raw=True)
    if 'C06' in families:
        T(rec.lat_order)
        T(rec.lat_links)
        if b % 4 == 0 and n * m <= 400:
            # the same lattice after a raw load of a permuted document (the re-sorting path of fromdict)
            def raw_loaded():
                doc = rec.ctx.todict()
                lat = doc['lattice']
                sigma = list(range(len(lat)))
                rng.shuffle(sigma)
                inv = {old: new for new, old in enumerate(sigma)}
                doc['lattice'] = [(tuple(reversed(lat[o][0])), lat[o][1], tuple(inv[u] for u in reversed(lat[o][2])),
                                   tuple(inv[u] for u in lat[o][3])) for o in sigma]
                loaded = rec.C.Context.fromdict(doc, raw=True)
                rec.ctx, rec._members = loaded, None
                rec.ev('ctx.new', n=n, m=m, rows=table.rows, tag=table.tag + ':raw-loaded')
            if T(raw_loaded):
                T(rec.lat_order)
                T(rec.lat_links)
    try:
        N = len(rec.members) if families & lattice_fams else 0
    except Exception:
        N = 0
    if 'C07' in families:
        pairs = pick_pairs(N, rng, 150)
        if table.tag.startswith('marathon'):
            # tens of thousands of distinct argument sets on ONE lattice object, then the first ones again
            def tri():
                return [rng.randrange(N) for _ in range(rng.choice((2, 3, 3, 4)))]
            first = [tri() for _ in range(400)]
            many = first + [tri() for _ in range(100000)] + first
            for idxs in many:
                T(rec.joinmeet, 'join', 'nary', idxs)
            for idxs in first[:200]:
                T(rec.joinmeet, 'meet', 'nary', idxs)
                T(rec.joinmeet, 'join', 'op', idxs[:2])
        for i, j in pairs:
            for name in ('join', 'meet'):
                T(rec.joinmeet, name, 'nary', [i, j])
                T(rec.joinmeet, name, 'method', [i, j])
                T(rec.joinmeet, name, 'op', [i, j])
        T(rec.joinmeet, 'join', 'nary', [])
        T(rec.joinmeet, 'meet', 'nary', [])
        for _ in range(nmulti):
            k = rng.randint(1, 5)
            idxs = [rng.randrange(N) for _ in range(k)]
            T(rec.joinmeet, 'join', 'nary', idxs)
            T(rec.joinmeet, 'meet', 'nary', idxs)
    if 'C08' in families:
        T(rec.preds, rng)
    if 'C09' in families:
        singles = range(N) if N <= 64 else sorted({0, 1, N - 1, N - 2, N // 2} | set(rng.sample(range(N), 40)))
        for i in singles:
            T(rec.traverse, 'upset', [i])
            T(rec.traverse, 'downset', [i])
        pairs = list(itertools.product(range(N), repeat=2))
        if len(pairs) > 100:
            pairs = rng.sample(pairs, 100) + [(0, N - 1), (1, 2), (N - 2, N - 3)]
        for i, j in pairs:
            T(rec.traverse, 'upset_union', [i, j])
            T(rec.traverse, 'downset_union', [i, j])
        T(rec.traverse, 'upset_union', [])
        T(rec.traverse, 'downset_union', [])
        if N and hasattr(rec.ctx.lattice, 'upset_generalization'):
            # experimental API, observation clauses only (a crash or a change of it fails no check)
            for i, j in pairs[:12]:
                try:
                    rec.upset_generalization([i, j])
                except Exception:
                    pass
        for _ in range(nmulti):
            k = rng.randint(1, 5)
            idxs = [rng.randrange(N) for _ in range(k)]
            T(rec.traverse, 'upset_union', idxs)
            T(rec.traverse, 'downset_union', idxs)
    if 'C10' in families:
        T(rec.lat_labels)
    if 'C15' in families:
        nperm = 3 if n * m <= 12 else 2
        if os.environ.get('VERIF_TIER_RUNNING') == 'thorough' and n <= 3 and m <= 3 and exhaustive_queries:
            # every pair of a row permutation and a column permutation
            for pr in itertools.permutations(range(n)):
                for pc in itertools.permutations(range(m)):
                    T(rec.rel, 'perm', rng, perm=(pr, pc))
        else:
            for _ in range(nperm):
                T(rec.rel, 'perm', rng)
        T(rec.rel, 'transpose', rng)
        for i in (range(1, n + 1) if n <= 4 else rng.sample(range(1, n + 1), 3)):
            T(rec.rel, 'duprow', rng, i=i)
        for j in (range(1, m + 1) if m <= 4 else rng.sample(range(1, m + 1), 3)):
            T(rec.rel, 'dupcol', rng, j=j)
        T(rec.rel, 'fullcol', rng)
    if 'C16' in families:
        T(rec.relations)
    if 'C18' in families:
        if table.tag.startswith('bigintent'):
            for i in range(N):
                T(rec.attributes, i)
        elif m <= 10:
            idxs = range(N) if N <= 48 else rng.sample(range(N), 48)
            for i in idxs:
                T(rec.attributes, i)
    if 'C20' in families:
        if b % 2 == 1:
            # the very first drawing of this lattice object is one that the caller's callback aborts
            T(rec.graphviz, 'again-after-abort')
        T(rec.graphviz, 'callbacks')
        T(rec.graphviz, 'default')
        T(rec.graphviz, 'only-object-callback' if b % 2 else 'only-property-callback')
        T(rec.graphviz, 'again-after-edit')
        T(rec.graphviz, 'default')
        if b % 2 == 0:
            T(rec.graphviz, 'again-after-abort')
            T(rec.graphviz, 'default')
