"""Generic runner: design model checking + sharded recording + TLC trace validation + verdict + evidence."""
import json
import os
import shutil
import time

import common


def behaviour_events(path, b, limit=400):
    out = []
    needle = f'"b":{b},'
    with open(path, encoding='utf-8') as f:
        for i, line in enumerate(f, 1):
            if needle in line:
                d = json.loads(line)
                if d.get('b') == b:
                    out.append((i, d))
    return out


def default_signature(mis, event):
    sig = f"{mis['ev']}:{mis['clause']}"
    if event is not None and event.get('out') not in (None, 'ok'):
        sig += f":{event['out']}"
    return sig


def run(prop, tier, seed, jobs, own, design=(), replay=None, rule='', assumptions=(), signature=None,
        extra_cov=None, post=None, prepare=None):
    """jobs: list of dict(name, script, args, module, cfg, shards). Returns exit code."""
    t0 = time.time()
    work = common.scratch_dir(prop)
    try:
        return _run(prop, tier, seed, jobs, own, design, replay, rule, list(assumptions), signature or default_signature,
                    extra_cov or {}, post, work, t0, prepare)
    finally:
        shutil.rmtree(work, ignore_errors=True)


def _run(prop, tier, seed, jobs, own, design, replay, rule, assumptions, signature, extra_cov, post, work, t0, prepare):
    verdict = common.Verdict(prop)
    states = transitions = 0
    design_info = []
    if replay is None:
        def mc(item):
            module, cfg = item[0], item[1]
            kw = item[2] if len(item) > 2 else {}
            return module, cfg, common.design_mc(module, cfg, work, **kw)
        for module, cfg, r in common.pool_map(mc, list(design), jobs=2):
            states += r['distinct']
            transitions += r['generated']
            design_info.append({'module': module, 'cfg': cfg, 'distinct_states': r['distinct'],
                                'states_generated': r['generated'], 'wall_s': round(r['wall'], 1)})
    if prepare is not None:
        st, tr, info = prepare(work)
        states += st
        transitions += tr
        design_info.extend(info)
    units = []
    for job in jobs:
        if replay is not None:
            if job['name'] != replay.get('job'):
                continue
            units.append((job, None))
        else:
            for sh in range(job.get('shards', common.NPROC)):
                units.append((job, sh))

    def one(unit):
        job, sh = unit
        tag = 'replay' if sh is None else str(sh)
        out = os.path.join(work, f"{job['name']}-{tag}.ndjson")
        args = [job['script']] + [x.replace('{work}', work) for x in job['args']] + ['--seed', str(seed), '--out', out]
        if sh is None:
            args += ['--only', str(replay['b'])]
        else:
            args += ['--shard', str(sh), '--nshards', str(job.get('shards', common.NPROC))]
        stats = json.loads(common.run_py(args, optimize=(sh is not None and sh % 2 == 1)).strip().splitlines()[-1])
        if stats['events'] == 0:
            return job, stats, [], {'distinct': 0, 'generated': 0}, out
        mism, consumed, r = common.validate_trace(job['module'], job['cfg'], out, work,
                                                  xmx=job.get('xmx', '3g'))
        if consumed != stats['events']:
            raise common.MachineryError(f"{job['name']} shard {sh}: TLC consumed {consumed} of {stats['events']} events")
        return job, stats, mism, r, out

    results = common.pool_map(one, units)
    tot = {}
    perjob = {}
    samples = []
    foreign = 0
    for job, stats, mism, r, path in results:
        pj = perjob.setdefault(job['name'], {})
        for k, v in stats.items():
            if isinstance(v, bool) or not isinstance(v, (int, float)):
                continue
            if k.startswith('max_') or k.startswith('universe_'):
                pj[k] = max(pj.get(k, 0), v)
                tot[k] = max(tot.get(k, 0), v)
            else:
                pj[k] = pj.get(k, 0) + v
                tot[k] = tot.get(k, 0) + v
        if stats.get('samples') and len(samples) < 4 and not any(s.get('job') == job['name'] for s in samples):
            samples.append({'job': job['name'], 'case': stats['samples'][0]})
        states += r['distinct']
        transitions += r['generated']
        byb = {}
        for m in mism:
            if m['clause'].startswith('machinery.'):
                raise common.MachineryError(f"{job['name']}: inconsistency inside the checking machinery: {m}")
            if not m['clause'].startswith(tuple(own)):
                foreign += 1
                continue
            byb.setdefault(m['b'], []).append(m)
        for b, ms in byb.items():
            evs = behaviour_events(path, b)
            bylines = dict(evs)
            groups = {}
            for m in ms:
                groups.setdefault(signature(m, bylines.get(m['line'])), []).append(m)
            for sig, gm in groups.items():
                first = gm[0]
                idx = [i for i, _ in evs]
                pos = idx.index(first['line']) if first['line'] in idx else 0
                payload = {'kind': 'trace', 'job': job['name'], 'b': b, 'tier': tier, 'seed': seed,
                           'failing_event': bylines.get(first['line']),
                           'history_before': [d for _, d in evs[max(0, pos - 6):pos]],
                           'clauses': sorted({m['clause'] for m in gm}),
                           'n_mismatching_events': len(gm)}
                verdict.fail(sig, f"{job['name']} behaviour {b}: {first['ev']} fails clause {first['clause']}",
                             payload, name=f"{job['name']}-b{b}")
    if post is not None:
        post(verdict, tot, perjob, design_info)
    nviol, nknown = verdict.report()
    cov = {
        'states': max(states, 1), 'transitions': max(transitions, 1),
        'traces_validated_against_impl': int(tot.get('behaviours', 0)),
        'evaluations': int(tot.get('events', 0)), 'distinct_nontrivial': int(tot.get('nontrivial', 0)),
        'rule': rule, 'samples': samples or [{'note': 'no sample recorded'}],
        'per_job': perjob, 'design_model_checking': design_info,
        'foreign_clause_mismatches': foreign, 'known_finding_behaviours': nknown,
    }
    cov.update(extra_cov)
    if replay is None:
        common.write_evidence(prop, tier, seed, cov, time.time() - t0, nviol, assumptions)
    return 1 if nviol else 0
