"""Independent readers for the text formats, written from the format descriptions (not from the library code).

Each returns (ok, objects, properties, cells) with cells a list of 1-based [row, column] pairs, or
(False, ...) when the text does not follow the documented layout.  These are the trusted projection for
C12: they turn emitted text into the abstract triple the specification judges.
"""
import csv
import io


def read_table(text):
    """ASCII-art table: header line with property names between '|', one line per object:
    name, then one cell per property, each cell followed by '|'; a cell is 'X' or blank."""
    lines = [ln for ln in text.split('\n') if ln.strip() != '']
    if not lines:
        return False, [], [], []
    head = lines[0]
    if not head.rstrip().endswith('|') or '|' not in head:
        return False, [], [], []
    hcells = head.rstrip()[:-1].split('|')
    if hcells[0].strip() != '':
        return False, [], [], []
    props = [c.strip() for c in hcells[1:]]
    objs, cells = [], []
    for i, ln in enumerate(lines[1:], 1):
        if not ln.rstrip().endswith('|'):
            return False, objs, props, cells
        parts = ln.rstrip()[:-1].split('|')
        if len(parts) != len(props) + 1:
            return False, objs, props, cells
        objs.append(parts[0].strip())
        for j, c in enumerate(parts[1:], 1):
            c = c.strip()
            if c == 'X':
                cells.append([i, j])
            elif c != '':
                return False, objs, props, cells
    return True, objs, props, cells


def read_cxt(text):
    """Burmeister format: 'B', name line, #objects, #properties, blank, object names, property names, rows of X / ."""
    lines = text.split('\n')
    while lines and lines[-1] == '':
        lines.pop()
    try:
        if lines[0] != 'B':
            return False, [], [], []
        n, m = int(lines[2]), int(lines[3])
        if lines[4] != '':
            return False, [], [], []
        body = lines[5:]
        if len(body) != n + m + n:
            return False, [], [], []
        objs = body[:n]
        props = body[n:n + m]
        cells = []
        for i, row in enumerate(body[n + m:], 1):
            if len(row) != m or set(row) - {'X', '.'}:
                return False, objs, props, cells
            cells.extend([i, j] for j, ch in enumerate(row, 1) if ch == 'X')
        return True, objs, props, cells
    except (IndexError, ValueError):
        return False, [], [], []


def read_csv(text, dialect='excel', as_int=False):
    """CSV: header row (object-column header, then property names), one row per object: name, then cells."""
    rows = list(csv.reader(io.StringIO(text, newline=''), dialect=dialect))
    if not rows:
        return False, [], [], []
    props = rows[0][1:]
    true, false = ('1', '0') if as_int else ('X', '')
    objs, cells = [], []
    for i, r in enumerate(rows[1:], 1):
        if len(r) != len(props) + 1:
            return False, objs, props, cells
        objs.append(r[0])
        for j, c in enumerate(r[1:], 1):
            if c == true:
                cells.append([i, j])
            elif c != false:
                return False, objs, props, cells
    return True, objs, props, cells


def read_wiki(text):
    """MediaWiki table: '{| ...', '!', '!p1!!p2...', then per object '|-', '!name', '|c1||c2...', finally '|}'."""
    lines = text.split('\n')
    while lines and lines[-1] == '':
        lines.pop()
    try:
        if not lines[0].startswith('{|') or lines[1] != '!' or not lines[2].startswith('!') or lines[-1] != '|}':
            return False, [], [], []
        props = lines[2][1:].split('!!')
        body = lines[3:-1]
        if len(body) % 3:
            return False, [], props, []
        objs, cells = [], []
        for i in range(len(body) // 3):
            a, b2, c = body[3 * i:3 * i + 3]
            if a != '|-' or not b2.startswith('!') or not c.startswith('|'):
                return False, objs, props, cells
            objs.append(b2[1:])
            vals = c[1:].split('||')
            if len(vals) != len(props):
                return False, objs, props, cells
            for j, v in enumerate(vals, 1):
                v = v.strip()
                if v == 'X':
                    cells.append([i + 1, j])
                elif v != '':
                    return False, objs, props, cells
        return True, objs, props, cells
    except IndexError:
        return False, [], [], []


def read_index_rows(text):
    """FIMI / .dat: one line per row, space-separated 0-based indexes; an empty line is an empty row."""
    lines = text.split('\n')
    if lines and lines[-1] == '':
        lines.pop()
    out = []
    for ln in lines:
        ln = ln.rstrip('\r')
        out.append([int(x) for x in ln.split(' ')] if ln != '' else [])
    return out


# ---------------------------------------------------------------- independent writers (format description only)
def write_table(objs, props, rows, pad='left', indent=0, extra=0):
    wo = max([len(o) for o in objs] + [0]) + extra

    def cell(text, w):
        if pad == 'left':
            return text.ljust(w)
        if pad == 'right':
            return text.rjust(w)
        gap = max(w - len(text), 0)
        return ' ' * (gap // 2) + text + ' ' * (gap - gap // 2)
    ws = [max(len(p), 1) + extra for p in props]
    out = [' ' * indent + cell('', wo) + '|' + ''.join(cell(p, w) + '|' for p, w in zip(props, ws))]
    for o, r in zip(objs, rows):
        out.append(' ' * indent + cell(o, wo) + '|' + ''.join(cell('X' if (j + 1) in r else '', w) + '|'
                                                                for j, w in enumerate(ws)))
    return '\n'.join(out) + '\n'


def write_cxt(objs, props, rows):
    out = ['B', '', str(len(objs)), str(len(props)), '']
    out += list(objs) + list(props)
    out += [''.join('X' if (j + 1) in r else '.' for j in range(len(props))) for r in rows]
    return '\n'.join(out) + '\n'


def write_csv(objs, props, rows, dialect='excel', as_int=False, header=''):
    buf = io.StringIO(newline='')
    w = csv.writer(buf, dialect=dialect)
    w.writerow([header] + list(props))
    true, false = ('1', '0') if as_int else ('X', '')
    for o, r in zip(objs, rows):
        w.writerow([o] + [true if (j + 1) in r else false for j in range(len(props))])
    return buf.getvalue()
