"""Worker for C12: text formats (table, cxt, csv, python-literal, wiki-table, FIMI, concept .dat)."""
import argparse
import json
import os
import random
import sys
import tempfile

sys.path.insert(0, os.path.dirname(os.path.abspath(__file__)))
sys.path.insert(0, os.environ.get('VERIF_REPO', '/repo'))

import corpus  # noqa: E402
import rec_ctx  # noqa: E402
import textreaders as TR  # noqa: E402

# label alphabets; every label is non-empty, without leading/trailing whitespace or line breaks (table / cxt domain)
PLAIN = ['X', '.', '0', '1', 'a b', 'x,y', '"q"', "it's", 'a;b', 'ü', 'Жук', '日本', 'a\tb', '-', '+1', '*', '()',
         '[x]', '{}', '<=>', 'a=b', '\\', '/', '%s', '{0}', 'None', 'X.', '..', 'B', 'x:y', '~', '$', '&amp;', '@',
         'p q r', 'é', 'ñ', 'ß', "''", '""', '`', '^', '?', 'Ω', 'a.b', '0x1F', '1e5', 'True', '\\n', 'è_é',
         'caf\u00e9', 'cafe\u0301', '\u00c5', '\u212b', '\u2126', 'ss', '\ufb01', 'fi', 'a', 'A']
BANG = ['!', '!!', 'a!b', 'x!!y']               # fine for table / cxt / csv, not for wiki-table
# inner control characters that are not line breaks (information separators, bell, escape, DEL, zero-width and
# bidi marks, no-break spaces): allowed inside table / cxt labels by the property statement
CTRL = ['a\x1cb', 'x\x1dy', 'p\x1eq', 'u\x1fv', 'b\x07l', 'e\x1bc', 'd\x7fl', 'z\u200bw', 'r\u200fl', 'n\u00a0b', 'i\u3000d',
        'long ' + 'x' * 90, 'e\u0301', '\ufeffbom'[1:] + 'x\ufeffy']
BAR = ['a|b', '|', '#1', '#', 'x#y', '||']        # fine for cxt / csv only
ANY = [' lead', 'trail ', ' both ', 'line\nbreak', 'cr\rlf', 'crlf\r\nx', '\n', ',', '"', '",', ',"', 'a,"b",c',
       '\t', ' ', "'", '"\n"', 'x\n\ny']          # csv / python-literal only

LATIN1 = [x for x in PLAIN if all(ord(c) < 256 for c in x)]


def labels(fmtclass, n, m, rng):
    pool = list(PLAIN)
    if fmtclass in ('table', 'cxt', 'any'):
        pool += BANG
    if fmtclass in ('table', 'cxt'):
        pool += CTRL
    if fmtclass in ('cxt', 'any'):
        pool += BAR
    if fmtclass == 'any':
        pool += ANY
    if fmtclass == 'latin1':
        pool = list(LATIN1)
    pool = sorted(set(pool))
    rng.shuffle(pool)
    need = n + m
    while len(pool) < need:
        pool.append(f'n{len(pool)}')
    return pool[:n], pool[n:n + m]


def triple_of(ctx):
    objs, props, bools = list(ctx.objects), list(ctx.properties), ctx.bools
    return objs, props, [[i + 1, j + 1] for i, row in enumerate(bools) for j, v in enumerate(row) if v]


class Rec:
    def __init__(self, emit, C, tmp):
        self.emit, self.C, self.tmp, self.b = emit, C, tmp, 0

    def ev(self, _n, **f):
        d = {'b': self.b, 'ev': _n}
        d.update(f)
        self.emit(d)

    def new(self, b, objs, props, table):
        self.b = b
        self.objs, self.props, self.table = objs, props, table
        self.ctx = self.C.Context(objs, props, table.bools())
        rows = self.ctx.bools               # the returned list is the caller's: edit it in place before any dump
        if isinstance(rows, list):
            rows.reverse()
            del rows[len(rows) // 2:]
        self.ev('t.new', objs=objs, props=props, rows=table.rows, tag=table.tag)

    def dump(self, fmt, reader, how='string', enc=None, tag='', **kw):
        """Library writes, independent reader reads."""
        frmat = {'csv-int': 'csv'}.get(fmt, fmt)
        try:
            if how == 'string':
                text = self.ctx.tostring(frmat=frmat, **kw)
            else:
                p = os.path.join(self.tmp, f'd{self.b}.txt')
                self.ctx.tofile(p, frmat=frmat, encoding=enc, **kw)
                with open(p, encoding=enc, newline='') as f:
                    text = f.read()
                if frmat in ('table', 'cxt', 'wiki-table'):
                    text = text.replace(os.linesep, '\n') if os.linesep != '\n' else text
        except Exception as exc:
            self.ev('t.dump', fmt=fmt, how=how, enc=enc or '', tag=tag, out=type(exc).__name__, msg=str(exc)[:200],
                    rd_ok=False, objs=[], props=[], cells=[])
            return None
        ok, o, p_, cells = reader(text)
        self.ev('t.dump', fmt=fmt, how=how, enc=enc or '', tag=tag, out='ok', rd_ok=bool(ok), objs=o, props=p_,
                cells=cells)
        return text

    def load(self, fmt, text, origin, how='string', enc=None, tag='', suffix=None, via='Context', **kw):
        """Library reads (its own text, or text produced by an independent writer)."""
        C = self.C
        frmat = {'csv-int': 'csv'}.get(fmt, fmt)
        try:
            if how == 'string':
                if via == 'make_context':
                    ctx = C.make_context(text, frmat=frmat)
                else:
                    ctx = C.Context.fromstring(text, frmat=frmat, **kw)
            else:
                p = os.path.join(self.tmp, f'l{self.b}{suffix or ".dat"}')
                with open(p, 'w', encoding=enc, newline='') as f:
                    f.write(text)
                if via == 'load':
                    ctx = C.load(p, encoding=enc)
                elif via == 'load_csv':
                    ctx = C.load_csv(p, encoding=enc, **kw)
                elif via == 'load_cxt':
                    ctx = C.load_cxt(p, encoding=enc)
                elif via == 'Definition.fromfile':
                    d = C.Definition.fromfile(p, frmat=frmat, encoding=enc, **kw)
                    ctx = C.Context(*d)
                else:
                    ctx = C.Context.fromfile(p, frmat=frmat, encoding=enc, **kw)
                os.unlink(p)
        except Exception as exc:
            self.ev('t.load', fmt=fmt, origin=origin, how=how, enc=enc or '', tag=tag, via=via,
                    out=type(exc).__name__, msg=str(exc)[:200], objs=[], props=[], cells=[], eq=False)
            return
        o, p_, cells = triple_of(ctx)
        self.ev('t.load', fmt=fmt, origin=origin, how=how, enc=enc or '', tag=tag, via=via, out='ok', objs=o,
                props=p_, cells=cells, eq=bool(ctx == self.ctx) and not (ctx != self.ctx))


def behaviour(rec, b, table, rng, tier):
    C = rec.C
    n, m = table.n, table.m
    rows = table.rows
    k = b % 6
    # ------------------------------------------------------------------ table
    if k in (0, 3):
        objs, props = labels('table', n, m, rng)
        rec.new(b, objs, props, table)
        for indent in (0, 4, 7):
            text = rec.dump('table', TR.read_table, tag=f'indent{indent}', indent=indent)
            if text is not None:
                rec.load('table', text, 'own', tag=f'indent{indent}')
        text = rec.ctx.tostring()
        rec.load('table', text, 'own', via='make_context')
        for pad in ('left', 'right', 'centre'):
            for indent, extra in ((0, 0), (3, 2)):
                w = TR.write_table(objs, props, rows, pad=pad, indent=indent, extra=extra)
                rec.load('table', w, 'writer', tag=f'{pad}-{indent}-{extra}')
        rec.load('table', '\n\n' + TR.write_table(objs, props, rows) + '\n', 'writer', tag='blank-lines')
        for enc in ('utf-8', 'utf-16'):
            t2 = rec.dump('table', TR.read_table, how='file', enc=enc)
            if t2 is not None:
                rec.load('table', t2, 'own', how='file', enc=enc, suffix='.TxT', via='load')
        d = rec.ctx.definition()
        rec.load('table', d.tostring() + '\n', 'own', how='file', enc='utf-8', via='Definition.fromfile', tag='definition')
        # wiki-table shares the label domain minus '!' and '|'
        if not any('!' in x or '|' in x for x in objs + props):
            rec.dump('wiki-table', TR.read_wiki)
            rec.dump('wikitable', TR.read_wiki, tag='alias')
        rec.dump('TABLE', TR.read_table, tag='format-name-case')
    # -------------------------------------------------------------------- cxt
    elif k in (1, 4):
        objs, props = labels('cxt', n, m, rng)
        rec.new(b, objs, props, table)
        text = rec.dump('cxt', TR.read_cxt)
        if text is not None:
            rec.load('cxt', text, 'own')
        rec.load('cxt', TR.write_cxt(objs, props, rows), 'writer')
        rec.load('cxt', TR.write_cxt(objs, props, rows) + '\n\n', 'writer', tag='trailing-blank')
        # the default format of tofile() / fromfile() is cxt, the default encoding utf-8
        try:
            pth = os.path.join(rec.tmp, f'default{b}.bin')
            rec.ctx.tofile(pth)
            back = rec.C.Context.fromfile(pth)
            with open(pth, encoding='utf-8', newline='') as fh:
                ok_, o_, p_, cells_ = TR.read_cxt(fh.read())
            os.unlink(pth)
            rec.ev('t.dump', fmt='cxt', how='file', enc='utf-8', tag='default-format', out='ok', rd_ok=bool(ok_),
                   objs=o_, props=p_, cells=cells_)
            o2, p2, c2 = triple_of(back)
            rec.ev('t.load', fmt='cxt', origin='own', how='file', enc='', tag='default-format', via='Context.fromfile',
                   out='ok', objs=o2, props=p2, cells=c2, eq=bool(back == rec.ctx))
        except Exception as exc:
            rec.ev('t.load', fmt='cxt', origin='own', how='file', enc='', tag='default-format', via='Context.fromfile',
                   out=type(exc).__name__, objs=[], props=[], cells=[], eq=False)
        for enc in ('utf-8', 'utf-16'):
            t2 = rec.dump('cxt', TR.read_cxt, how='file', enc=enc)
            if t2 is not None:
                rec.load('cxt', t2, 'own', how='file', enc=enc, suffix='.CXT', via='load')
                rec.load('cxt', t2, 'own', how='file', enc=enc, suffix='.cxt', via='load_cxt')
                rec.load('cxt', t2, 'own', how='file', enc=enc, suffix='.cxt', via='Definition.fromfile', tag='definition')
        dtext = rec.ctx.definition().tostring(frmat='cxt')
        ok, o_, p_, cells_ = TR.read_cxt(dtext)
        rec.ev('t.dump', fmt='cxt', how='string', enc='', tag='Definition.tostring', out='ok', rd_ok=bool(ok), objs=o_,
               props=p_, cells=cells_)
    # -------------------------------------------------------------------- csv / python-literal / index exports
    else:
        objs, props = labels('any' if k == 2 else 'latin1', n, m, rng)
        rec.new(b, objs, props, table)
        for fmt, as_int in (('csv', False), ('csv-int', True)):
            for dialect in ('excel', 'unix', 'excel-tab'):      # the last explicit one differs most from the default
                def rd(t, dialect=dialect, as_int=as_int):
                    return TR.read_csv(t, dialect, as_int)
                text = rec.dump(fmt, rd, tag=dialect, dialect=dialect, bools_as_int=as_int)
                if text is not None:
                    rec.load(fmt, text, 'own', tag=dialect, dialect=dialect)
                    rec.load(fmt, text, 'own', tag=dialect + '-explicit', dialect=dialect, bools_as_int=as_int)
                rec.load(fmt, TR.write_csv(objs, props, rows, dialect, as_int, header='name'), 'writer', tag=dialect,
                         dialect=dialect)
        encs = ('utf-8', 'utf-16') + (('latin-1',) if k == 5 else ())
        for enc in encs:
            t2 = rec.dump('csv', TR.read_csv, how='file', enc=enc)
            if t2 is not None:
                rec.load('csv', t2, 'own', how='file', enc=enc, suffix='.Csv', via='load')
                rec.load('csv', t2, 'own', how='file', enc=enc, suffix='.csv', via='load_csv')
                rec.load('csv', t2, 'own', how='file', enc=enc, suffix='.csv', via='Definition.fromfile', tag='definition')
        lit = rec.ctx.tostring(frmat='python-literal')
        rec.load('python-literal', lit, 'own')
        for enc in encs:
            p = os.path.join(rec.tmp, f'lit{b}.PY')
            rec.ctx.tofile(p, frmat='python-literal', encoding=enc)
            with open(p, encoding=enc, newline='') as f:
                t3 = f.read()
            os.unlink(p)
            rec.load('python-literal', t3, 'own', how='file', enc=enc, suffix='.Py', via='load')
        # FIMI rows and concept .dat files
        try:
            ft = rec.ctx.tostring(frmat='fimi')
            p = os.path.join(rec.tmp, f'f{b}.dat')
            rec.ctx.tofile(p, frmat='fimi')
            with open(p, encoding='ascii', newline='') as f:
                back = TR.read_index_rows(f.read())
            os.unlink(p)
            rec.ev('t.index', fmt='fimi', out='ok', rows=TR.read_index_rows(ft), members=[], readback=back)
        except Exception as exc:
            rec.ev('t.index', fmt='fimi', out=type(exc).__name__, rows=[], members=[], readback=[])
        from concepts import algorithms, formats
        for extents in (False, True):
            try:
                cl = algorithms.get_concepts(rec.ctx)
                p = os.path.join(rec.tmp, f'c{b}.dat')
                cl.tofile(p, extents=extents)
                with open(p, encoding='ascii', newline='') as f:
                    rows_ = TR.read_index_rows(f.read())
                members = [list((c.extent if extents else c.intent).iter_set()) for c in cl]
                back = [list(t) for t in formats.read_concepts_dat(p)]
                os.unlink(p)
                rec.ev('t.index', fmt='dat-extents' if extents else 'dat-intents', out='ok', rows=rows_,
                       members=members, readback=back)
            except Exception as exc:
                rec.ev('t.index', fmt='dat-extents' if extents else 'dat-intents', out=type(exc).__name__, rows=[],
                       members=[], readback=[])


def tla_case(rec, b, c):
    """A document laid out by the TLA+ writer (TextGen.tla): load it with the library."""
    class T:
        pass
    t = T()
    t.n, t.m = len(c['objs']), len(c['props'])
    t.rows = [[j + 1 for j, v in enumerate(r) if v] for r in c['rows']]
    t.tag = 'tla'
    t.bools = lambda: [tuple(bool(v) for v in r) for r in c['rows']]
    rec.new(b, c['objs'], c['props'], t)
    fmt, lay = c['fmt'], c['lay']
    if fmt == 'table':
        text = '\n'.join(c['lines']) + '\n'
        mine = TR.write_table(c['objs'], c['props'], t.rows, pad=lay['pad'], indent=lay['indent'], extra=lay['extra'])
        rec.load('table', text, 'tla', tag=json.dumps(lay, sort_keys=True))
    elif fmt == 'cxt':
        text = '\n'.join(c['lines']) + '\n'
        mine = TR.write_cxt(c['objs'], c['props'], t.rows)
        rec.load('cxt', text, 'tla')
    else:
        dialect = 'excel' if lay['pad'] == ',' else 'excel-tab'
        text = '\r\n'.join(c['lines']) + '\r\n'
        mine = TR.write_csv(c['objs'], c['props'], t.rows, dialect, fmt == 'csv-int', header='name' if fmt == 'csv' else '')
        rec.load(fmt, text, 'tla', tag=dialect, dialect=dialect)
    rec.ev('t.agree', fmt=fmt, agree=(text == mine))


def main():
    ap = argparse.ArgumentParser()
    ap.add_argument('--cases', default=None)
    ap.add_argument('--tier', default='quick')
    ap.add_argument('--seed', type=int, default=0)
    ap.add_argument('--shard', type=int, default=0)
    ap.add_argument('--nshards', type=int, default=1)
    ap.add_argument('--only', type=int, default=None)
    ap.add_argument('--out', required=True)
    a = ap.parse_args()
    import concepts as C
    if not os.path.realpath(C.__file__).startswith(os.path.realpath(os.environ.get('VERIF_REPO', '/repo'))):
        raise SystemExit('wrong copy of concepts imported: ' + C.__file__)
    stats = {'behaviours': 0, 'events': 0, 'nontrivial': 0, 'samples': []}
    if a.tier == 'quick':
        shapes = [(1, 1), (1, 2), (2, 1), (2, 2), (1, 3), (3, 1), (2, 3), (3, 2)]
        reps, nrand = 2, 150
    else:
        shapes = [(1, 1), (1, 2), (2, 1), (2, 2), (1, 3), (3, 1), (2, 3), (3, 2), (3, 3)]
        reps, nrand = 6, 3000
    tables = [t for t in corpus.exhaustive(shapes) for _ in range(reps)] + corpus.structured(5) * 3 + \
        list(corpus.randoms(nrand, a.seed, 7, 7))
    # more than 256 objects / properties through every format (one table per format class k = 0..5)
    rngw = random.Random(a.seed + 99)
    for k in range(6):
        n, m = ((2, 300), (300, 2), (3, 270), (260, 3), (2, 1000 if a.tier == 'thorough' else 400), (330, 2))[k]
        wt = corpus.Table(n, m, [[j for j in range(1, m + 1) if rngw.random() < 0.4] for _ in range(n)], f'wide{n}x{m}')
        while len(tables) % 6 != k:
            tables.append(corpus.Table(1, 1, [[1]], 'pad'))
        tables.append(wt)
    tmp = tempfile.mkdtemp(prefix='text-', dir=os.path.dirname(os.path.abspath(a.out)))
    with open(a.out, 'w', encoding='utf-8') as f:
        def emit(d):
            f.write(json.dumps(d, ensure_ascii=True, separators=(',', ':')) + '\n')
            stats['events'] += 1
        rec = Rec(emit, C, tmp)
        if a.cases:
            tables = []
            with open(a.cases, encoding='utf-8') as cf:
                for b, line in enumerate(cf):
                    if (a.only is not None and b != a.only) or (a.only is None and b % a.nshards != a.shard):
                        continue
                    c = json.loads(line)
                    try:
                        tla_case(rec, b, c)
                    except Exception as exc:
                        rec.b = b
                        rec.ev('crash', prop='C12', call='tla_case', exc=type(exc).__name__, msg=str(exc)[:300])
                    stats['behaviours'] += 1
                    stats['nontrivial'] += any(any(r) for r in c['rows'])
                    if not stats['samples'] and any(any(r) for r in c['rows']):
                        stats['samples'].append({'tla_writer_case': c})
        for b, t in enumerate(tables):
            if (a.only is not None and b != a.only) or (a.only is None and b % a.nshards != a.shard):
                continue
            rng = random.Random(f'{a.seed}:text:{b}')
            try:
                with rec_ctx.watchdog(3 * rec_ctx.CALL_TIMEOUT):
                    behaviour(rec, b, t, rng, a.tier)
            except Exception as exc:
                rec.b = b
                rec.ev('crash', prop='C12', call='behaviour', exc=type(exc).__name__, msg=str(exc)[:300])
            stats['behaviours'] += 1
            ncross = sum(map(len, t.rows))
            stats['nontrivial'] += 0 < ncross < t.n * t.m
            if not stats['samples'] and ncross:
                stats['samples'].append({'b': b, 'objects': rec.objs, 'properties': rec.props, 'rows': t.rows})
    import shutil
    shutil.rmtree(tmp, ignore_errors=True)
    print(json.dumps(stats))


if __name__ == '__main__':
    main()
