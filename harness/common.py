"""Shared plumbing: paths, TLC runner, verdicts, evidence, known findings."""
import concurrent.futures
import hashlib
import json
import os
import re
import shutil
import subprocess
import sys
import tempfile
import time

VERIF = os.path.dirname(os.path.dirname(os.path.abspath(__file__)))
SPEC = os.path.join(VERIF, 'spec')
HARNESS = os.path.join(VERIF, 'harness')
EVIDENCE = os.path.join(VERIF, 'evidence')
REPLAYS = os.path.join(EVIDENCE, 'replays')
KNOWN = os.path.join(VERIF, 'known_findings.txt')
REPO = os.environ.get('VERIF_REPO', '/repo')
PY = os.environ.get('VERIF_PYTHON', '/venv/bin/python')
TLA_CP = '/opt/veriftools/tla/tla2tools.jar:/opt/veriftools/tla/CommunityModules-deps.jar'
NPROC = int(os.environ.get('VERIF_JOBS', str(os.cpu_count() or 4)))


class MachineryError(Exception):
    """Something in the checking machinery failed (exit status 2, never a VIOLATION)."""


def scratch_dir(tag):
    base = os.environ.get('VERIF_SCRATCH') or tempfile.gettempdir()
    return tempfile.mkdtemp(prefix=f'verif-{tag}-', dir=base)


def child_env(extra=None):
    env = dict(os.environ)
    env['VERIF_REPO'] = REPO
    env['PYTHONPATH'] = HARNESS + os.pathsep + REPO
    env.setdefault('PYTHONHASHSEED', '0')
    env['PYTHONDONTWRITEBYTECODE'] = '1'
    env.pop('CONCEPTS_VERIF', None)
    if extra:
        env.update(extra)
    return env


_STATES = re.compile(r'(\d+) states generated, (\d+) distinct states found')


def run_tlc(module, cfg, workdir, env=None, workers=1, timeout=3600, extra_args=(), xmx='2g', simulate=None):
    """Run TLC on spec/<module>.tla with spec/<cfg>; return dict(out, states, distinct, ok, rc)."""
    meta = tempfile.mkdtemp(prefix='meta-', dir=workdir)
    cmd = ['java', f'-Xmx{xmx}', '-XX:+UseParallelGC', '-XX:ParallelGCThreads=2', '-Xss64m', '-Dfile.encoding=UTF-8', '-Dstdout.encoding=UTF-8', '-Dtlc2.tool.queue.IStateQueue=MemStateQueue',
           '-cp', TLA_CP, 'tlc2.TLC', '-workers', str(workers), '-metadir', meta, '-noGenerateSpecTE',
           '-config', cfg]
    cmd += list(extra_args)
    cmd.append(module + '.tla')
    e = dict(os.environ)
    if env:
        e.update(env)
    t0 = time.time()
    try:
        p = subprocess.run(cmd, cwd=SPEC, env=e, stdout=subprocess.PIPE, stderr=subprocess.STDOUT,
                           timeout=timeout, text=True, errors='replace')
    except subprocess.TimeoutExpired:
        raise MachineryError(f'TLC timeout after {timeout}s: {module} {cfg}')
    finally:
        shutil.rmtree(meta, ignore_errors=True)
    out = p.stdout
    m = None
    for m in _STATES.finditer(out):
        pass
    states = int(m.group(1)) if m else 0
    distinct = int(m.group(2)) if m else 0
    completed = 'Model checking completed. No error has been found.' in out or \
                (simulate and 'Finished in' in out)
    return {'out': out, 'generated': states, 'distinct': distinct, 'completed': bool(completed),
            'rc': p.returncode, 'wall': time.time() - t0, 'cmd': ' '.join(cmd)}


_MIS = re.compile(r'^<<"MISMATCH", (\d+), (-?\d+), "([^"]*)", "([^"]*)">>$', re.M)
_DONE = re.compile(r'^<<"DONE", (\d+)>>$', re.M)


def validate_trace(module, cfg, trace_file, workdir, timeout=3600, xmx='2g'):
    """Validate one ndjson trace; returns (mismatches, lines_consumed, tlc_result). Raises MachineryError."""
    r = run_tlc(module, cfg, workdir, env={'TRACE_FILE': trace_file}, timeout=timeout, xmx=xmx)
    out = r['out']
    done = _DONE.search(out)
    if not r['completed'] or not done:
        tail = '\n'.join(out.splitlines()[-40:])
        raise MachineryError(f'TLC did not complete trace {trace_file} ({module}):\n{tail}')
    mism = [dict(line=int(a), b=int(b), ev=ev, clause=cl) for a, b, ev, cl in _MIS.findall(out)]
    return mism, int(done.group(1)), r


def design_mc(module, cfg, workdir, workers=None, timeout=3600, xmx='4g', extra_args=()):
    """Model-check a design-level spec; any invariant violation is a machinery error (the oracle is wrong)."""
    r = run_tlc(module, cfg, workdir, workers=workers or NPROC, timeout=timeout, xmx=xmx, extra_args=extra_args)
    if not r['completed']:
        tail = '\n'.join(r['out'].splitlines()[-60:])
        raise MachineryError(f'design model check failed: {module} {cfg}\n{tail}')
    return r


def run_tlapm(module, workdir, timeout=900):
    """Check the TLAPS proofs of spec/<module>.tla (unbounded lemmas about the oracle); machinery error on failure."""
    dst = tempfile.mkdtemp(prefix='tlapm-', dir=workdir)
    shutil.copy(os.path.join(SPEC, module + '.tla'), dst)
    t0 = time.time()
    try:
        p = subprocess.run(['tlapm', module + '.tla'], cwd=dst, stdout=subprocess.PIPE, stderr=subprocess.STDOUT,
                           text=True, timeout=timeout)
    except (subprocess.TimeoutExpired, FileNotFoundError) as exc:
        raise MachineryError(f'tlapm failed: {exc}')
    m = re.search(r'All (\d+) obligations? proved', p.stdout)
    if not m:
        raise MachineryError('TLAPS proofs not all discharged:\n' + p.stdout[-2000:])
    return {'module': module, 'cfg': 'tlapm', 'obligations_proved': int(m.group(1)), 'distinct_states': 0,
            'states_generated': 0, 'wall_s': round(time.time() - t0, 1)}


def run_py(args, timeout=5400, env=None, stdin=None, optimize=False):
    """optimize=True runs the worker under `python -O` (assert statements stripped): results of the library must
    not depend on the interpreter's optimisation flag."""
    p = subprocess.run([PY] + (['-O'] if optimize else []) + args, cwd=HARNESS, env=child_env(env), stdout=subprocess.PIPE,
                       stderr=subprocess.PIPE, text=True, timeout=timeout, input=stdin)
    if p.returncode != 0:
        raise MachineryError(f'harness process failed: {args}\n{p.stderr[-4000:]}')
    return p.stdout


def pool_map(fn, items, jobs=None):
    with concurrent.futures.ThreadPoolExecutor(max_workers=jobs or NPROC) as ex:
        return list(ex.map(fn, items))


# ------------------------------------------------------------------ findings
def load_known():
    known, fixed = [], []
    if os.path.exists(KNOWN):
        for line in open(KNOWN, encoding='utf-8'):
            line = line.strip()
            if not line or line.startswith('#'):
                continue
            m = re.match(r'known:\s+property=(\S+)\s+key=(\S+)\s+(.*)', line)
            if m:
                known.append({'property': m.group(1), 'key': m.group(2), 'what': m.group(3)})
            elif line.startswith('fixed:'):
                fixed.append(line)
    return known, fixed


def write_replay(prop, name, payload):
    os.makedirs(REPLAYS, exist_ok=True)
    h = hashlib.sha1(json.dumps(payload, sort_keys=True).encode()).hexdigest()[:10]
    path = os.path.join(REPLAYS, f'{prop}-{name}-{h}.json')
    with open(path, 'w', encoding='utf-8') as f:
        json.dump(payload, f, indent=1, sort_keys=True)
    return path


class Verdict:
    """Collects failing behaviours, matches them against known findings, prints the verdict lines."""

    def __init__(self, prop):
        self.prop = prop
        self.failures = []      # dict(key, what, replay_payload, name)
        self.foreign = []

    def fail(self, key, what, payload, name='b'):
        self.failures.append({'key': key, 'what': what, 'payload': payload, 'name': name})

    def report(self, max_lines=25):
        known, _ = load_known()
        kmap = {(k['property'], k['key']): k for k in known}
        nviol = 0
        nknown = 0
        seen_known = set()
        printed = 0
        for f in self.failures:
            k = kmap.get((self.prop, f['key']))
            if k is not None:
                nknown += 1
                if f['key'] not in seen_known:
                    seen_known.add(f['key'])
                    print(f"KNOWN-FINDING: property={self.prop} {k['what']}")
                continue
            nviol += 1
            if printed < max_lines:
                payload = dict(f['payload'])
                payload.update({'property': self.prop, 'key': f['key'], 'what': f['what']})
                path = write_replay(self.prop, f['name'], payload)
                print(f"# {f['key']}: {f['what']}")
                print(f"VIOLATION property={self.prop} replay={path}")
                printed += 1
        if nviol > printed:
            print(f'# ... {nviol - printed} further violating behaviours of {self.prop} not listed')
        return nviol, nknown


def write_evidence(prop, tier, seed, coverage, wall, violations, assumptions, level='model_checking'):
    if os.environ.get('VERIF_NO_EVIDENCE'):
        return None      # selftests run the checks against scratch copies: never touch the evidence of /repo
    os.makedirs(EVIDENCE, exist_ok=True)
    doc = {'property_id': prop, 'tier': tier, 'seed': int(seed), 'level': level, 'coverage': coverage,
           'assumptions': assumptions, 'wall_s': round(wall, 2), 'violations': int(violations)}
    path = os.path.join(EVIDENCE, f'{prop}.json')
    tmp = path + '.tmp'
    with open(tmp, 'w', encoding='utf-8') as f:
        json.dump(doc, f, indent=1, sort_keys=True, ensure_ascii=False)
    os.replace(tmp, path)
    return path


_HIST = re.compile(r'^<<"HIST", (".*")>>$', re.M)


def session_hists(work, tier, seed):
    """spec -> code: design check of SessionSys.tla, then behaviours chosen by TLC's simulator (one JSON list of
    action records per line in <work>/sessions.jsonl). Returns (path, states, transitions, info list)."""
    d = design_mc('SessionSys', 'MC_SessionSys.cfg', work)
    num = 400 if tier == 'quick' else 4000
    r = run_tlc('SessionSys', 'SIM_SessionSys.cfg', work, workers=1,
                extra_args=['-simulate', f'num={num}', '-depth', '11', '-seed', str(seed + 11)], simulate=True,
                timeout=1800)
    hists = _HIST.findall(r['out'])
    if not r['completed'] or len(hists) != num:
        raise MachineryError(f'TLC simulation of SessionSys: {len(hists)} behaviours for num={num}:\n' + r['out'][-1500:])
    path = os.path.join(work, 'sessions.jsonl')
    with open(path, 'w', encoding='utf-8') as f:
        for h in hists:
            f.write(json.loads(h) + '\n')
    info = [{'module': 'SessionSys', 'cfg': 'MC_SessionSys.cfg', 'distinct_states': d['distinct'],
             'states_generated': d['generated'], 'wall_s': round(d['wall'], 1)},
            {'module': 'SessionSys (simulate)', 'cfg': 'SIM_SessionSys.cfg', 'behaviours_emitted': len(hists), 'depth': 10,
             'wall_s': round(r['wall'], 1)}]
    return path, d['distinct'], d['generated'], info
