"""Recorder and drivers for Definition histories, derivations and Context<->Definition (C13, C14)."""
import copy
import itertools
import random


def triple(d):
    objs = list(d.objects)
    props = list(d.properties)
    bools = d.bools
    cells = [[o, p] for o, row in zip(objs, bools) for p, v in zip(props, row) if v]
    return {'objs': objs, 'props': props, 'cells': cells}


def shape_ok(d):
    b = d.bools
    return len(b) == len(d.objects) and all(len(r) == len(d.properties) for r in b)


def bools_of(v):
    cells = {tuple(c) for c in v['cells']}
    return [tuple((o, p) in cells for p in v['props']) for o in v['objs']]


class DefRecorder:
    def __init__(self, emit, concepts_mod, prop='C13'):
        self.emit = emit
        self.C = concepts_mod
        self.prop = prop
        self.b = 0
        self.live = {}
        self.ctxs = {}

    def ev(self, _evname, **fields):
        d = {'b': self.b, 'ev': _evname}
        d.update(fields)
        self.emit(d)

    def post(self):
        return [dict(h=h, **triple(d)) for h, d in sorted(self.live.items())]

    def reset(self, b):
        self.b = b
        self.live = {}
        self.ctxs = {}
        self.ev('reset')

    def crash(self, call, exc):
        self.ev('crash', prop=self.prop, call=call, exc=type(exc).__name__, msg=str(exc)[:300])

    def new(self, h, v):
        try:
            d = self.C.Definition(v['objs'], v['props'], bools_of(v))
        except Exception as exc:
            self.crash('Definition', exc)
            return None
        self.live[h] = d
        self.ev('def.new', h=h, given=v, out='ok', post=self.post())
        return d

    def names_arg(self, names):
        """The names argument (docstrings: "Iterable of ... name strings") as list / tuple / one-shot generator /
        iterator / dict keys view, in rotation; order and repeats as given."""
        self._nk = getattr(self, '_nk', 0) + 1
        names = list(names)
        k = self._nk % 5
        if k == 1:
            return tuple(names)
        if k == 2:
            return (x for x in names)
        if k == 3:
            return iter(names)
        if k == 4 and len(set(names)) == len(names):
            return dict.fromkeys(names).keys()
        return names

    def fork(self, h, new):
        self.live[new] = copy.deepcopy(self.live[h])
        self.ev('def.fork', h=h, new=new)

    def op(self, h, c):
        d = self.live[h]
        op = c['op']
        oth = self.live.get(c.get('other'))
        out, ret = 'ok', {'k': 'none'}
        try:
            if op == 'setitem':
                # the value is taken by truthiness: rotate through several truthy / falsy objects
                self._tv = getattr(self, '_tv', 0) + 1
                val = ((True, 1, 'X', [0], 2.5) if c['v'] else (False, 0, '', None, []))[self._tv % 5]
                d[c['o'], c['p']] = val
                r = None
            elif op in ('add_object', 'set_object'):
                r = getattr(d, op)(c['o'], self.names_arg(c['names']))
            elif op in ('add_property', 'set_property'):
                r = getattr(d, op)(c['p'], self.names_arg(c['names']))
            elif op == 'remove_object':
                r = d.remove_object(c['o'])
            elif op == 'remove_property':
                r = d.remove_property(c['p'])
            elif op in ('rename_object', 'rename_property'):
                r = getattr(d, op)(c['old'], c['new'])
            elif op == 'move_object':
                r = d.move_object(c['o'], c['idx'])
            elif op == 'move_property':
                r = d.move_property(c['p'], c['idx'])
            elif op in ('remove_empty_objects', 'remove_empty_properties'):
                r = getattr(d, op)()
            elif op in ('union_update', 'intersection_update'):
                r = getattr(d, op)(oth, c['ignore'])
            elif op == 'ior':
                d2 = d
                d2 |= oth
                r = None
                if d2 is not d:
                    raise AssertionError('|= returned a different object')
            elif op == 'iand':
                d2 = d
                d2 &= oth
                r = None
                if d2 is not d:
                    raise AssertionError('&= returned a different object')
            else:
                raise KeyError(op)
            if r is not None:
                ret = {'k': 'list', 'v': list(r)}
        except Exception as exc:
            out = type(exc).__name__
        try:
            fresh = (d == self.C.Definition(*d)) and (self.C.Definition(*d) == d) and not (d != self.C.Definition(*d))
        except Exception:
            fresh = False
        try:
            sh = d.shape
            dshape = [sh.objects, sh.properties]
            dfill = [d.fill_ratio.numerator, d.fill_ratio.denominator] if sh.objects * sh.properties else [0, 0]
        except Exception as exc:
            dshape, dfill = [-1, -1], [0, 0]
        self.ev('def.op', h=h, c=c, out=out, ret=ret, fresh_eq=fresh, shape_ok=shape_ok(d), dshape=dshape, dfill=dfill,
                post=self.post())
        return out

    def derive(self, h, c, new):
        d = self.live[h]
        op = c['op']
        oth = self.live.get(c.get('other'))
        out, ret, r = 'ok', {'k': 'none'}, None
        try:
            if op == 'copy':
                r = d.copy()
            elif op == 'transposed':
                r = d.transposed()
            elif op == 'neg':
                r = -d
            elif op == 'inverted':
                r = d.inverted()
            elif op == 'invert':
                r = ~d
            elif op == 'take':
                kw = {}
                if c['objects']['given']:
                    kw['objects'] = list(c['objects']['names'])
                if c['properties']['given']:
                    kw['properties'] = list(c['properties']['names'])
                r = d.take(reorder=c['reorder'], **kw)
            elif op == 'union':
                r = d.union(oth, c['ignore'])
            elif op == 'or':
                r = d | oth
            elif op == 'intersection':
                r = d.intersection(oth, c['ignore'])
            elif op == 'and':
                r = d & oth
            else:
                raise AssertionError(op)
        except Exception as exc:
            out = type(exc).__name__
            if isinstance(exc, KeyError) and exc.args and isinstance(exc.args[0], list):
                ret = {'k': 'list', 'v': list(exc.args[0])}
        isnew = False
        ghosts = []
        if out == 'ok':
            isnew = all(r is not x for x in self.live.values()) and isinstance(r, self.C.Definition)
            self.live[new] = r
            # a name of a source that is not in the result must be unknown to the result in every respect:
            # reading a cell of it raises KeyError
            robjs, rprops = set(r.objects), set(r.properties)
            srcs = [d] + ([oth] if oth is not None else [])
            for n in {x for s_ in srcs for x in (s_.objects + s_.properties)}:
                if n not in robjs and r.properties:
                    try:
                        r[n, r.properties[0]]
                        ghosts.append(['object', n])
                    except KeyError:
                        pass
                if n not in rprops and r.objects:
                    try:
                        r[r.objects[0], n]
                        ghosts.append(['property', n])
                    except KeyError:
                        pass
        self.ev('def.derive', h=h, c=c, new=new, out=out, ret=ret, isnew=isnew, ghosts=ghosts[:5], post=self.post())
        return out

    def freeze(self, h, ch):
        d = self.live[h]
        out, fields = 'ok', {}
        try:
            ctx = self.C.Context(*d)
        except Exception as exc:
            out = type(exc).__name__
        if out == 'ok':
            self.ctxs[ch] = ctx
            back = ctx.definition()
            objs, props, bools = list(ctx.objects), list(ctx.properties), ctx.bools
            fields['triple'] = {'objs': objs, 'props': props,
                                'cells': [[o, p] for o, row in zip(objs, bools) for p, v in zip(props, row) if v]}
            fields['rt_eq'] = bool(back == d) and bool(d == back) and not (back != d)
            fields['rt_triple_eq'] = (back.objects, back.properties, back.bools) == (d.objects, d.properties, d.bools)
        self.ev('def.freeze', h=h, ch=ch, out=out, post=self.post(), **fields)
        return out

    def thaw(self, ch, new):
        ctx = self.ctxs[ch]
        d = ctx.definition()
        self.live[new] = d
        again = self.C.Context(*d)
        self.ev('ctx.thaw', ch=ch, new=new, ctx_eq=bool(again == ctx) and not (again != ctx), post=self.post())

    def ctx_eq(self, a, b2):
        x, y = self.ctxs[a], self.ctxs[b2]
        self.ev('ctx.eq', a=a, b2=b2, eq=bool(x == y), ne=bool(x != y))

    def ctx_meta(self, ch):
        ctx = self.ctxs[ch]
        d = ctx.definition()
        cs, dsh = ctx.shape, d.shape
        cf, df = ctx.fill_ratio, d.fill_ratio
        self.ev('ctx.meta', ch=ch, cshape=[cs.objects, cs.properties], dshape=[dsh.objects, dsh.properties],
                cfill=[cf.numerator, cf.denominator], dfill=[df.numerator, df.denominator],
                str_eq=ctx.tostring() == d.tostring() and str(d) == d.tostring(),
                crc_eq=all(self._crc(ctx, enc) == self._crc(d, enc)
                           for enc in (None, 'utf-16', 'utf-8', None, 'utf-32', 'utf-16')))

    @staticmethod
    def _crc(x, enc):
        """crc32 of a context / definition under an encoding (the two classes spell the argument differently)."""
        try:
            if enc is None:
                return x.crc32()
            return x.crc32(encoding=enc)
        except Exception as exc:
            return type(exc).__name__


# ------------------------------------------------------------------ universes
def states(onames, pnames):
    """Every well-formed definition value over the universe (as dicts)."""
    out = []
    for no in range(len(onames) + 1):
        for objs in itertools.permutations(onames, no):
            for np_ in range(len(pnames) + 1):
                for props in itertools.permutations(pnames, np_):
                    grid = [(o, p) for o in objs for p in props]
                    for bits in range(1 << len(grid)):
                        cells = [[o, p] for i, (o, p) in enumerate(grid) if bits >> i & 1]
                        out.append({'objs': list(objs), 'props': list(props), 'cells': cells})
    return out


def lists(names, maxlen):
    out = []
    for k in range(maxlen + 1):
        out.extend(list(t) for t in itertools.product(names, repeat=k))
    return out


def calls(cur, onames, pnames, maxlist, others):
    """All call instances DefSys.tla's Calls(cur) enumerates (same universe, same bounds)."""
    out = []
    for o in onames:
        for p in pnames:
            for v in (False, True):
                out.append({'op': 'setitem', 'o': o, 'p': p, 'v': v})
    for op in ('add_object', 'set_object'):
        for o in onames:
            for ns in lists(pnames, maxlist):
                out.append({'op': op, 'o': o, 'names': ns})
    for op in ('add_property', 'set_property'):
        for p in pnames:
            for ns in lists(onames, maxlist):
                out.append({'op': op, 'p': p, 'names': ns})
    for o in onames:
        out.append({'op': 'remove_object', 'o': o})
    for p in pnames:
        out.append({'op': 'remove_property', 'p': p})
    for a in onames:
        for b in onames:
            out.append({'op': 'rename_object', 'old': a, 'new': b})
    for a in pnames:
        for b in pnames:
            out.append({'op': 'rename_property', 'old': a, 'new': b})
    for o in onames:
        for i in range(max(len(cur['objs']), 1)):
            out.append({'op': 'move_object', 'o': o, 'idx': i})
    for p in pnames:
        for i in range(max(len(cur['props']), 1)):
            out.append({'op': 'move_property', 'p': p, 'idx': i})
    out.append({'op': 'remove_empty_objects'})
    out.append({'op': 'remove_empty_properties'})
    for op in ('union_update', 'intersection_update'):
        for k in others:
            for g in (False, True):
                out.append({'op': op, 'other': k, 'ignore': g})
    return out


def mk(objs, props, cells):
    return {'objs': list(objs), 'props': list(props), 'cells': [list(c) for c in cells]}


# the operand definitions of MC_DefSys_quick.tla (QOthers), handles 101..106
Q_OTHERS = {
    101: mk('a', 'x', [('a', 'x')]),
    102: mk('ba', 'yx', [('b', 'y')]),
    103: mk('ab', 'xy', [('a', 'x'), ('b', 'x'), ('b', 'y')]),
    104: mk('b', 'y', []),
    105: mk('', '', []),
    106: mk('ab', 'xy', [('a', 'x'), ('a', 'y'), ('b', 'x'), ('b', 'y')]),
}
