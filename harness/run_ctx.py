"""Check runner for the context / lattice query properties (C01-C10, C16, C18, C20)."""
import json
import os
import shutil
import time

import re

import common
import ctxplan

_TABLE = re.compile(r'^<<"TABLE", (".*")>>$', re.M)

# design-level model checking done for each property: (module, cfg) per tier
DESIGN = {
    'quick': [('Theorems', 'MC_Theorems_quick.cfg'), ('MC_ContextSys', 'MC_ContextSys_quick.cfg')],
    'thorough': [('Theorems', 'MC_Theorems_thorough.cfg'), ('MC_ContextSys', 'MC_ContextSys_thorough.cfg')],
}


ALGO = {'C03': 'lindig', 'C05': 'lindig', 'C06': 'lindig', 'C04': 'fcbo', 'C09': 'merge'}


def design_for(prop, tier):
    out = list(DESIGN[tier])
    if prop in ALGO:
        out.append(('MC_Algorithms', f'MC_Alg_{ALGO[prop]}_{tier}.cfg'))
    return out


def behaviour_events(path, b):
    out = []
    with open(path, encoding='utf-8') as f:
        for line in f:
            if f'"b":{b},' in line:
                d = json.loads(line)
                if d.get('b') == b:
                    out.append(d)
    return out


def signature(prop, mis, event):
    """Signature of a failing behaviour for the known-findings file: call site, clause, outcome, input class."""
    sig = f"{mis['ev']}:{mis['clause']}"
    if event is not None and 'out' in event and event['out'] != 'ok':
        sig += f":{event['out']}"
        if mis['ev'] == 'relations.str' and not event.get('rows'):
            sig += ':nothing-to-list'
    return sig


def run(prop, tier, seed, replay=None):
    t0 = time.time()
    work = common.scratch_dir(prop)
    try:
        return _run(prop, tier, seed, replay, work, t0)
    finally:
        shutil.rmtree(work, ignore_errors=True)


def _run(prop, tier, seed, replay, work, t0):
    nsh = common.NPROC
    verdict = common.Verdict(prop)
    states = transitions = 0
    design_info = []
    if replay is None:
        for module, cfg in design_for(prop, tier):
            if not os.path.exists(os.path.join(common.SPEC, cfg)):
                continue
            r = common.design_mc(module, cfg, work)
            states += r['distinct']
            transitions += r['generated']
            design_info.append({'module': module, 'cfg': cfg, 'distinct_states': r['distinct'],
                                'states_generated': r['generated'], 'wall_s': round(r['wall'], 1)})
        if prop in ('C01', 'C02', 'C07', 'C08') and tier == 'thorough':
            # unbounded TLAPS proofs of the Galois / closure / order-duality core of the oracle
            design_info.append(common.run_tlapm('GaloisProofs', work))

    # spec -> code: the exhaustive part of the corpus is the reachable state space of TableGen.tla
    sset = ctxplan.shape_set(prop, tier)
    g = common.design_mc('TableGen', f'GEN_{sset}.cfg', work, workers=1, xmx='6g')
    tables = _TABLE.findall(g['out'])
    if len(tables) != g['distinct'] or not tables:
        raise common.MachineryError(f'TableGen: {len(tables)} tables printed for {g["distinct"]} distinct states')
    tpath = os.path.join(work, 'tables.jsonl')
    with open(tpath, 'w', encoding='utf-8') as f:
        for t in tables:
            f.write(json.loads(t) + '\n')
    states += g['distinct']
    transitions += g['generated']
    design_info.append({'module': 'TableGen', 'cfg': f'GEN_{sset}.cfg', 'distinct_states': g['distinct'],
                        'states_generated': g['generated'], 'tables_emitted': len(tables),
                        'wall_s': round(g['wall'], 1)})

    # spec -> code: sessions of several same-label handles in call orders chosen by TLC (SessionSys.tla); every
    # library call of every step is a TraceCtx event
    spath = None
    if prop != 'C15':
        spath, sst, str_, sinfo = common.session_hists(work, tier, seed)
        states += sst
        transitions += str_
        design_info.extend(sinfo)
    nsess = 4 if tier == 'quick' else 16

    def one(unit):
        kind, shard = unit
        out = os.path.join(work, f'{kind}{shard}.ndjson')
        if kind == 'main':
            args = ['rec_ctx_worker.py', '--prop', prop, '--tier', tier, '--seed', str(seed), '--out', out,
                    '--tables', tpath]
            n = nsh
        else:
            args = ['rec_session_worker.py', '--prop', prop, '--tier', tier, '--seed', str(seed), '--out', out,
                    '--cases', spath, '--emit', 'ctx']
            n = nsess
        if replay is not None:
            args += ['--only', str(replay['b'])]
        else:
            args += ['--shard', str(shard), '--nshards', str(n)]
        stats = json.loads(common.run_py(args, optimize=(shard % 2 == 1 and replay is None)).strip().splitlines()[-1])
        stats['kind'] = kind
        if stats['events'] == 0:
            return stats, [], 0, {'distinct': 0, 'generated': 0}, out
        mism, consumed, r = common.validate_trace('TraceCtx', 'TraceCtx.cfg', out, work)
        if consumed != stats['events']:
            raise common.MachineryError(f'{kind} shard {shard}: TLC consumed {consumed} of {stats["events"]} events')
        return stats, mism, consumed, r, out

    if replay is not None:
        units = [('session' if replay['b'] >= 1000000 else 'main', 0)]
    else:
        units = [('main', i) for i in range(nsh)] + ([('session', i) for i in range(nsess)] if spath else [])
    results = common.pool_map(one, units)
    own = ctxplan.OWN[prop]
    tot = {'behaviours': 0, 'events': 0, 'nontrivial': 0, 'exhaustive_tables': 0, 'max_concepts': 0, 'max_width': 0,
           'sessions': 0, 'session_steps': 0, 'orphan_scenarios': 0, 'int_cell_contexts': 0, 'iterator_built_contexts': 0}
    samples = []
    foreign = 0
    for stats, mism, consumed, r, path in results:
        if stats['kind'] == 'session':
            tot['sessions'] += stats['behaviours']
            tot['session_steps'] += stats['steps']
        for k in ('behaviours', 'events', 'nontrivial', 'exhaustive_tables'):
            tot[k] += stats[k]
        for k in ('max_concepts', 'max_width'):
            tot[k] = max(tot[k], stats[k])
        for k in ('orphan_scenarios', 'int_cell_contexts', 'iterator_built_contexts'):
            tot[k] += stats.get(k, 0)
        samples.extend(stats['samples'][:1])
        states += r['distinct']
        transitions += r['generated']
        byb = {}
        for m in mism:
            if not m['clause'].startswith(own):
                foreign += 1
                continue
            byb.setdefault(m['b'], []).append(m)
        for b, ms in byb.items():
            evs = behaviour_events(path, b)
            lines = {}
            with open(path, encoding='utf-8') as f:
                for i, line in enumerate(f, 1):
                    if any(m['line'] == i for m in ms):
                        lines[i] = json.loads(line)
            groups = {}
            for m in ms:
                groups.setdefault(signature(prop, m, lines.get(m['line'])), []).append(m)
            for sig, gm in groups.items():
                first = gm[0]
                payload = {'kind': 'ctx', 'b': b, 'tier': tier, 'seed': seed,
                           'table': evs[0] if evs else None,
                           'failing_event': lines.get(first['line']),
                           'clauses': sorted({m['clause'] for m in gm}),
                           'n_mismatching_events': len(gm)}
                verdict.fail(sig, f"behaviour {b}: {first['ev']} fails clause {first['clause']}", payload, name=f'b{b}')
    if replay is None and tot['exhaustive_tables'] != len(tables):
        raise common.MachineryError(f"exhaustive corpus mismatch: TLC enumerated {len(tables)} tables, the recorder "
                                    f"used {tot['exhaustive_tables']}")
    nviol, nknown = verdict.report()
    cov = {
        'states': max(states, 1), 'transitions': max(transitions, 1),
        'traces_validated_against_impl': tot['behaviours'],
        'evaluations': tot['events'], 'distinct_nontrivial': tot['nontrivial'],
        'rule': 'one behaviour = one context built through the public constructor followed by the recorded calls of '
                'the property\'s families, or one session of up to three same-label handles in a call order chosen by '
                'TLC on SessionSys.tla; every event is validated by TLC against TraceCtx.tla. A behaviour is '
                'counted non-trivial if its table is distinct and has at least one cross and one blank.',
        'samples': samples[:4],
        'exhaustive': tot['exhaustive_tables'] > 0,
        'exhaustive_tables': tot['exhaustive_tables'],
        'exhaustive_shapes': f'the reachable states of spec/TableGen.tla with Shapes = {sset} (every boolean table of '
                             'those shapes), enumerated by TLC and cross-checked against the number recorded',
        'max_concepts_in_a_lattice': tot['max_concepts'], 'max_objects_or_properties': tot['max_width'],
        'design_model_checking': design_info,
        'tlc_chosen_sessions_replayed': tot['sessions'], 'tlc_chosen_session_steps': tot['session_steps'],
        'behaviours_with_orphaned_concepts': tot['orphan_scenarios'],
        'contexts_built_from_1_0_or_count_cells': tot['int_cell_contexts'],
        'contexts_built_from_one_shot_iterators': tot['iterator_built_contexts'],
        'foreign_clause_mismatches': foreign,
        'known_finding_behaviours': nknown,
    }
    if replay is None:
        common.write_evidence(prop, tier, seed, cov, time.time() - t0, nviol, [
            'TLC evaluates the TLA+ operators as written (tla2tools 1.8.0)',
            'the recorder projects results through public attributes only (objects/properties/extent/intent/'
            'index/dindex/upper_neighbors/lower_neighbors/objects/properties/atoms, bitset .members())',
            'bounded: exhaustive shapes and sampled larger contexts as listed; nothing is claimed beyond them',
        ])
    return 1 if nviol else 0
