"""Regenerate MANIFEST.json from the table below (kept in one place so it stays valid)."""
import json
import os

HERE = os.path.dirname(os.path.dirname(os.path.abspath(__file__)))

TRUST = ('Trusted: TLC 1.8.0 evaluating the TLA+ operators as written; the recorder in harness/ (public API '
         'projection only); bitsets .members(); bounded exploration - exhaustive shapes and sampled contexts '
         'as reported in the evidence file.')

CTX_TEXT = ('Code->spec trace validation: every public call of this family is executed on the real library over '
            'all boolean tables up to the tier bound plus structured / random / wide / mid-wide / huge-thin / giant-'
            'axis tables and lattices up to 1000+ concepts, in both states of the lazy-lattice cache, with live sibling '
            'contexts (same labels, other table, incl. CRC32 twins), several argument kinds (containers, one-shot iterators, '
            '1/0 and count cells) and under python -O; each '
            'recorded event is validated by TLC against the TLA+ state machine ContextSys/TraceCtx (every clause of '
            'the property on every event). Spec->code: TLC\'s simulator chooses sessions of several same-label '
            'handles on SessionSys.tla (create / query family / failing call / aborted drawing / copy / pickle / '
            'export-reload / orphaned concepts / drop in any order) that are replayed on real objects and validated the same way. The oracle is model checked against the literal property statement on all '
            'small tables (Theorems.tla, 23 invariants), the handle state machine and implementation-shaped models of '
            'Lindig / FCbO / the heap merge are explored exhaustively (MC_ContextSys, Algorithms.tla), and the Galois / '
            'closure core is proved for all sizes with TLAPS (thorough tier).')

CLAIMED = {
    'C01': ('TLC trace validation vs Galois-connection oracle (FCA.tla)', '6/C01'),
    'C02': ('TLC trace validation vs closure-pair oracle; member identity logged', '6/C02'),
    'C03': ('TLC trace validation: iteration = set of formal concepts (Extents by column intersections, proven = literal definition on small tables)', '6/C03'),
    'C04': ('TLC trace validation of the four generators vs Concepts(K)', '6/C04'),
    'C05': ('TLC trace validation vs covering relation (minimal one-object closures = literal covers)', '6/C05'),
    'C06': ('TLC trace validation vs shortlex/longlex orders and ranks (Order.tla)', '6/C06'),
    'C07': ('TLC trace validation vs lub/glb (closure of union / intersection = CHOOSE-defined lub/glb)', '6/C07'),
    'C08': ('TLC trace validation of the full predicate matrices vs extent-level definitions', '6/C08'),
    'C09': ('TLC trace validation vs filters/ideals and rank order', '6/C09'),
    'C10': ('TLC trace validation vs reduced labelling (object/attribute concepts)', '6/C10'),
    'C11': ('TLC trace validation of the persistence life cycle (lazy-lattice flag as state) vs Documents.tla; loaded objects compared with recomputed ones through full public observations; TLC-chosen SessionSys behaviours replayed and validated by TraceSession.tla (lazy flag of every live handle after every step, full observation at drop)', '6/C11'),
    'C12': ('TLC trace validation of round trips and of independently read/written text; TLA+ writers (TextFormats.tla) enumerate laid-out documents that the library must load', '6/C12'),
    'C13': ('TLC trace validation of the complete one-step relation, 2-step paths and random histories vs Definition.tla; DefSys.tla model checked (WF inductive, errors change nothing)', '6/C13'),
    'C14': ('TLC trace validation of all pairs x derivations x follow-up edits with every live handle logged (Frame clause) vs Definition.tla', '6/C14'),
    'C15': ('TLC trace validation of relational clauses between the lattices of a context and of its permuted / transposed / duplicated variants (FCA.tla transformation operators; laws model checked in Theorems.tla)', '6/C15'),
    'C16': ('TLC trace validation vs Junctors.tla (occurring truth-value combinations)', '6/C16'),
    'C17': ('joint TLC validation of K traces of one call corpus recorded under K PYTHONHASHSEED values', '6/C17'),
    'C18': ('TLC trace validation vs generator sets in shortlex order', '6/C18'),
    'C19': ('TLC enumerates every single/double corruption of every small valid input (ValSys.tla); outcomes of the real constructors validated by TLC vs Validation.tla', '6/C19'),
    'C20': ('TLC trace validation of the parsed DOT body vs Drawing.tla', '6/C20'),
}

NOT_YET = {
}


def main():
    checks = []
    for pid in sorted(CLAIMED):
        tech, ref = CLAIMED[pid]
        checks.append({
            'property_id': pid,
            'quick_cmd': f'./check {pid} --tier quick',
            'thorough_cmd': f'./check {pid} --tier thorough',
            'evidence_file': f'/verif/evidence/{pid}.json',
            'replay_cmd_template': f'./check {pid} --replay {{path}}',
            'engine': 'tlc-trace',
            'level_claimed': {'category': 'model_checking', 'text': CTX_TEXT if pid in CTX_PROPS else TEXTS[pid],
                              'design_ref': f'DESIGN.md section {ref}'},
            'level_note': TRUST,
            'technique': tech,
        })
    doc = {
        'version': 1,
        'setup_cmd': './setup.sh',
        'hooks': {
            'guard': 'CONCEPTS_VERIF',
            'enable': 'no source hooks are needed: every observation is made through the public API by the recorder '
                      'in /verif/harness, which imports concepts from /repo (VERIF_REPO) at each run',
            'baseline_off_cmd': 'cd /repo && /venv/bin/python -m pytest -ra -q -p no:cacheprovider --timeout=900 '
                                '--continue-on-collection-errors',
            'source_commits': [],
            'add_only': True,
        },
        'engines': [
            {'name': 'tlc-trace', 'path': '/verif/spec',
             'serves_properties': sorted(CLAIMED),
             'kind_free_text': 'explicit TLA+ specification (spec/*.tla) checked with TLC: design-level model checking '
                               'of the oracle (Theorems, Definition, Session ...) plus trace validation of recorded '
                               'executions of the real library and replay of TLC-generated behaviours into it'},
        ],
        'checks': checks,
        'notes': 'Single entry point ./check <id> --tier quick|thorough [--replay path]; exit 2 = machinery failure. '
                 'Known findings: /verif/known_findings.txt. See DESIGN.md.',
        'not_applicable': [{'property_id': k, 'reason': v} for k, v in sorted(NOT_YET.items())],
    }
    with open(os.path.join(HERE, 'MANIFEST.json'), 'w') as f:
        json.dump(doc, f, indent=1)
        f.write('\n')


CTX_PROPS = {'C15', 'C01', 'C02', 'C03', 'C04', 'C05', 'C06', 'C07', 'C08', 'C09', 'C10', 'C16', 'C18', 'C20'}
TEXTS = {
    'C13': ('Design: DefSys.tla (one action per mutator over a bounded name universe) is model checked by TLC: WF is '
            'inductive, rejected calls change nothing, bools is well shaped. Conformance: the harness enumerates the '
            'same universe (state and transition counts cross-checked against TLC\'s), executes every call instance '
            'from every state on the real Definition, every 2-step path on a sample (all in the thorough tier) and '
            'thousands of random histories; TLC validates every event against Apply() of Definition.tla: outcome '
            'class, return value, resulting triple, unchanged-on-error, d == Definition(*d), row shape.'),
    'C11': ('The handle state is (context value, lazy-lattice flag); TracePersist.tla gives every export/load/copy/'
            'pickle its effect on the flag and every export its exact content (Documents.tla: 0-based index tuples, '
            'lattice 4-tuples in canonical order). Theorems.tla model checks that a raw load re-derives the canonical '
            'order from every permutation of the stored list (all tables up to the bound, all permutations for <= 5 '
            'concepts). Conformance: the real library is driven through dict / JSON (path, PathLike, file object) / '
            'python-literal (string, file, load()) / pickle (in process and in child interpreters with other hash '
            'seeds) with and without (lazily present) lattice and with random permutations under raw=True; TLC '
            'validates the exports field by field and that the full public observation of every loaded object equals '
            'that of a context recomputed from scratch; lattices up to a few thousand concepts.'),
    'C12': ('Code -> spec: every dump of the library is projected by an independent reader written from the format '
            'description and TLC checks Read(Dump(x)) = x and Load(Dump(x)) = x over all small tables x per-format label '
            'alphabets x {string, file} x encodings x csv dialects x cell symbols x indents, suffix inference, FIMI and '
            '.dat index rows. Spec -> code: TextGen.tla/TextFormats.tla (writers for table, cxt, csv stated in TLA+, '
            'incl. the csv quoting rule) enumerate laid-out documents (layout: padding side, indent, extra width, '
            'delimiter) which the library must load as the same context; the TLA+ and Python writers are cross-checked.'),
    'C17': ('Hyper-property: the same seeded call corpus is executed in K separate interpreter processes with different '
            'PYTHONHASHSEED values; the K recorded traces are validated jointly by TLC (TraceDet.tla): call i must be '
            'the same call with the same textual observation in all of them. The specification contributes that every '
            'response is a function of state and arguments (DefSys/ContextSys actions are operators; model checked).'),
    'C19': ('Spec -> code -> spec: the inputs are the reachable states of ValSys.tla (valid seeds x at most two '
            'corruption steps, enumerated exhaustively by TLC, which also checks that every seed is valid and that '
            'the document and triple predicates agree); each is fed to the real Context(...) / Context.fromdict(...) '
            'and TLC validates outcome (ok iff well formed, otherwise exactly ValueError) and read-back against '
            'Validation.tla; seeded random corruptions of larger inputs go through the same trace spec.'),
    'C14': ('Design: derivation laws (involutions, union/intersection laws, take-all identity) are model checked on '
            'every reachable definition of DefSys.tla. Conformance: all ordered pairs of small definitions x every '
            'derivation choice x single follow-up edits on source, operand or result, plus random multi-handle '
            'histories with freeze/thaw, are executed on the real library; after every call the projection of EVERY '
            'live handle is logged and TLC checks the value of the result, that it is a new object, and the Frame '
            'clause (no handle the call did not name changed); Context(*d).definition() round trips, context '
            'equality, shape/fill_ratio/tostring/crc32 agreement are clauses of the same trace spec.'),
}

if __name__ == '__main__':
    main()
