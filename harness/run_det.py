"""Check runner for C17 (determinism across interpreter processes and hash seeds)."""
import run_trace


def signature(mis, event):
    """One signature per CALL of the corpus, so that a known finding about one call never hides another."""
    call = event['calls'][0] if event and event.get('calls') else '?'
    return f"{mis['ev']}:{mis['clause']}:{call}"


def run(prop, tier, seed, replay=None):
    jobs = [dict(name='seeds', script='rec_det_worker.py', args=['--tier', tier], module='TraceDet',
                 cfg='TraceDet.cfg', shards=16)]
    design = [('MC_DefSys_quick', 'MC_DefSys_quick.cfg')]
    rule = ('a fixed seeded call corpus (contexts x every text/dict export, lattice listing, ranks, neighbour and '
            'traversal orders, relations, graphviz source, FCbO output, definition edit histories with several new '
            'names per call, error messages that list names) is executed in K child interpreters with different '
            'PYTHONHASHSEED (4 quick, 12 thorough incl. 2 random); event i holds the K observations of call i and TLC '
            'checks they are one value. "behaviours" counts interpreter processes per shard; non-trivial: calls whose '
            'observation is longer than 40 characters.')
    return run_trace.run(prop, tier, seed, jobs, own=('C17.',), design=design, replay=replay, rule=rule,
                         signature=signature,
                         assumptions=['memory addresses in reprs are masked (0x...)',
                                      'the corpus is seeded through random.Random(str), which does not depend on '
                                      'hash randomisation',
                                      'DefSys.tla model checked: every call instance has exactly one successor '
                                      '(Apply is an operator), so order results are functions of state and arguments'])
