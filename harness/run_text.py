"""Check runner for C12 (text formats)."""
import json
import os
import re

import common
import run_trace

_CASE = re.compile(r'^<<"CASE", (".*")>>$', re.M)


def run(prop, tier, seed, replay=None):
    def prepare(work):
        r = common.design_mc('TextGen', f'MC_TextGen_{tier}.cfg', work, workers=1)
        cases = _CASE.findall(r['out'])
        if len(cases) != r['distinct']:
            raise common.MachineryError(f'TextGen: {len(cases)} cases for {r["distinct"]} distinct states')
        with open(os.path.join(work, 'textcases.jsonl'), 'w', encoding='utf-8') as f:
            for c in cases:
                f.write(json.loads(c) + '\n')
        return r['distinct'], r['generated'], [{'module': 'TextGen', 'cfg': f'MC_TextGen_{tier}.cfg',
                                                'distinct_states': r['distinct'], 'states_generated': r['generated'],
                                                'cases_emitted': len(cases), 'wall_s': round(r['wall'], 1)}]

    jobs = [
        dict(name='library-text', script='rec_text_worker.py', args=['--tier', tier], module='TraceText', cfg='TraceText.cfg'),
        dict(name='tla-writer', script='rec_text_worker.py', args=['--tier', tier, '--cases', '{work}/textcases.jsonl'],
             module='TraceText', cfg='TraceText.cfg'),
    ]
    rule = ('library-text: all tables of the small shapes (each with several label draws) + structured + random tables, '
            'labels drawn from per-format alphabets (ASCII punctuation, delimiters of the other formats, digits, X, ., '
            'inner whitespace, non-ASCII; for csv/literal also commas, quotes, CR/LF, leading/trailing blanks), through '
            'tostring/fromstring, tofile/fromfile with utf-8/utf-16/latin-1, csv dialects excel/excel-tab/unix, X/blank '
            'and 1/0 cells, table indents 0/4/7, load()/load_csv/load_cxt/make_context/Definition.fromfile, mixed-case '
            'suffixes, wiki-table, FIMI and concept .dat exports; emitted text is projected by independent readers, '
            'and text of independent writers (Python, every layout) is loaded. tla-writer: every document TLC reaches in '
            'TextGen.tla (tables x label offsets x layouts, text built by TextFormats.tla) loaded by the library. '
            'Non-trivial: tables with a cross and a blank.')
    return run_trace.run(prop, tier, seed, jobs, own=('C12.',), design=[], replay=replay, rule=rule, prepare=prepare,
                         assumptions=['the independent readers/writers in harness/textreaders.py follow the format '
                                      'descriptions (trusted; cross-checked against the TLA+ writers)',
                                      'stdlib csv is used as tokenizer by the independent csv reader',
                                      'representable labels only, as the property statement lists them; cell width '
                                      '>= 1 in table layouts'],
                         extra_cov={'exhaustive': True, 'exhaustive_part': 'TextGen.tla state space; all tables of the '
                                    'small shapes in the library-text job'})
