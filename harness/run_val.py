"""Check runner for C19 (input validation): TLC enumerates the corrupted inputs, the real constructors are fed
with them, TLC validates the recorded outcomes against Validation.tla."""
import json
import os
import re

import common
import run_trace

_CASE = re.compile(r'^<<"CASE", (".*")>>$', re.M)


def run(prop, tier, seed, replay=None):
    gen = [('ValSys', f'MC_ValSys_triple_{tier}.cfg'), ('ValSys', f'MC_ValSys_doc_{tier}.cfg')]

    def prepare(work):
        info = []
        st = tr = 0
        path = os.path.join(work, 'cases.jsonl')
        n = 0
        with open(path, 'w', encoding='utf-8') as f:
            for module, cfg in gen:
                r = common.design_mc(module, cfg, work, workers=1)
                cases = _CASE.findall(r['out'])
                if len(cases) != r['distinct']:
                    raise common.MachineryError(f'{cfg}: {len(cases)} cases printed for {r["distinct"]} distinct states')
                for c in cases:
                    f.write(json.loads(c) + '\n')
                    n += 1
                st += r['distinct']
                tr += r['generated']
                info.append({'module': module, 'cfg': cfg, 'distinct_states': r['distinct'],
                             'states_generated': r['generated'], 'cases_emitted': len(cases),
                             'wall_s': round(r['wall'], 1)})
        return st, tr, info

    nrand = 6000 if tier == 'quick' else 300000
    jobs = [
        dict(name='tlc-cases', script='rec_val_worker.py', args=['--mode', 'cases', '--cases', '{work}/cases.jsonl'],
             module='TraceVal', cfg='TraceVal.cfg'),
        dict(name='random', script='rec_val_worker.py', args=['--mode', 'random', '--count', str(nrand)],
             module='TraceVal', cfg='TraceVal.cfg'),
    ]
    rule = ('tlc-cases: every distinct input TLC reaches in ValSys.tla from every valid seed (all tables up to the '
            'configured shape) by at most two corruptions (drop/duplicate/move a name across axes, drop/add/extend/'
            'truncate a row, out-of-range/negative/repeated index, retyped name, dropped key, empty lattice, flag '
            'toggles), fed to Context(...) / Context.fromdict(...); random: seeded corruptions (0-2) of valid inputs '
            'up to 6x6. Non-trivial: distinct inputs that must be rejected.')
    return run_trace.run(prop, tier, seed, jobs, own=('C19.',), design=[], replay=replay, rule=rule, prepare=prepare,
                         assumptions=['TLC evaluates Validation.tla as written',
                                      'well-typed inputs only: names are str/int/None, bools a sequence of sequences',
                                      'a stored lattice, when present, is a correct one for the context (its content '
                                      'is not validated by the library and is not part of C19)'],
                         extra_cov={'exhaustive': True,
                                    'exhaustive_part': 'all single and double corruptions of all seeds (ValSys.tla)'})
