"""Check runner for C11 (structured persistence and the lazy-lattice flag)."""
import common
import run_trace


def signature(mis, event):
    sig = f"{mis['ev']}:{mis['clause']}"
    if event is not None and event.get('out') not in (None, 'ok'):
        sig += f":{event['out']}"
        if event.get('ev') == 'p.pickle' and event.get('out') == 'RecursionError':
            sig += ':concepts>=300' if event.get('concepts', 0) >= 300 else ':concepts<300'
    return sig


def run(prop, tier, seed, replay=None):
    jobs = [dict(name='persist', script='rec_persist_worker.py', args=['--tier', tier], module='TracePersist',
                 cfg='TracePersist.cfg', shards=16 if tier == 'quick' else 48)]
    design = [('Theorems', f'MC_Theorems_{tier}.cfg')]
    # spec -> code: sessions of several handles chosen by TLC's simulator on SessionSys.tla; the lazy flag of every
    # live handle is observed after every step and compared by TLC with the model (TraceSession.tla)
    jobs.append(dict(name='session-flags', script='rec_session_worker.py',
                     args=['--prop', prop, '--tier', tier, '--emit', 'flags', '--cases', '{work}/sessions.jsonl'],
                     module='TraceSession', cfg='TraceSession.cfg', shards=4 if tier == 'quick' else 16))

    def prepare(work):
        path, st, tr, info = common.session_hists(work, tier, seed)
        return st, tr, info
    rule = ('one behaviour = one context through the persistence life cycle: todict with ignore_lattice in '
            '{None, True, False} before and after the lattice is computed, fromdict/fromjson (str path, PathLike, file '
            'object) with ignore/require/raw flags, randomly permuted documents with raw=True, python-literal '
            'string/file/load(), tojson writers, copy, pickling of context and lattice in process and through child '
            'interpreters with other PYTHONHASHSEEDs; every loaded object is compared through its full public '
            'observation with a context recomputed from scratch and (small lattices) with LatList0(LatticeOf(K)). '
            'Non-trivial: tables with at least one cross and one blank.')
    return run_trace.run(prop, tier, seed, jobs, own=('C11.',), design=design, replay=replay, rule=rule,
                         signature=signature, prepare=prepare,
                         assumptions=['TLC evaluates Documents.tla / LatticeOf.tla as written',
                                      'the lazy flag is observed through todict(ignore_lattice=None)',
                                      'pickle byte streams are opaque; observations are compared as SHA-1 digests of '
                                      'their canonical JSON (sorted keys) for large lattices',
                                      'a raw=False load is only given documents in canonical order'],
                         extra_cov={'exhaustive': True, 'exhaustive_part': 'all tables of the small shapes listed in '
                                    'rec_persist_worker.py for the tier'})
