"""Worker: record Definition behaviours (C13 edges / 2-step paths / random walks, C14 pairs)."""
import argparse
import json
import os
import random
import sys

sys.path.insert(0, os.path.dirname(os.path.abspath(__file__)))
sys.path.insert(0, os.environ.get('VERIF_REPO', '/repo'))

import rec_def  # noqa: E402
from rec_def import Q_OTHERS, calls, states, mk  # noqa: E402

UNIVERSES = {
    # name: (object names, property names, max list length)
    'q22': (['a', 'b'], ['x', 'y'], 2),
    # 's' is usable on both axes (a definition does not require the axes to be disjoint)
    't33': (['a', 'b', 's'], ['x', 'y', 's'], 2),
}


def rand_def(rng, onames, pnames, maxo=4, maxp=4):
    objs = rng.sample(onames, rng.randint(0, min(maxo, len(onames))))
    props = rng.sample(pnames, rng.randint(0, min(maxp, len(pnames))))
    dens = rng.choice((0.2, 0.5, 0.8))
    cells = [[o, p] for o in objs for p in props if rng.random() < dens]
    return {'objs': objs, 'props': props, 'cells': cells}


def rand_names(rng, names, maxlen=5):
    k = rng.randint(0, maxlen)
    return [rng.choice(names) for _ in range(k)]


def rand_call(rng, cur, onames, pnames, live):
    """One random mutator instance, biased towards calls that hit existing names."""
    objs, props = cur['objs'], cur['props']
    def o():
        return rng.choice(objs) if objs and rng.random() < 0.6 else rng.choice(onames)
    def p():
        return rng.choice(props) if props and rng.random() < 0.6 else rng.choice(pnames)
    op = rng.choice(['setitem', 'setitem', 'add_object', 'add_property', 'set_object', 'set_property',
                     'remove_object', 'remove_property', 'rename_object', 'rename_property', 'move_object',
                     'move_property', 'remove_empty_objects', 'remove_empty_properties', 'union_update',
                     'intersection_update', 'ior', 'iand'])
    if op == 'setitem':
        return {'op': op, 'o': o(), 'p': p(), 'v': rng.random() < 0.6}
    if op in ('add_object', 'set_object'):
        return {'op': op, 'o': o(), 'names': rand_names(rng, pnames)}
    if op in ('add_property', 'set_property'):
        return {'op': op, 'p': p(), 'names': rand_names(rng, onames)}
    if op == 'remove_object':
        return {'op': op, 'o': o()}
    if op == 'remove_property':
        return {'op': op, 'p': p()}
    if op == 'rename_object':
        return {'op': op, 'old': o(), 'new': rng.choice(onames)}
    if op == 'rename_property':
        return {'op': op, 'old': p(), 'new': rng.choice(pnames)}
    if op == 'move_object':
        return {'op': op, 'o': o(), 'idx': rng.randrange(max(len(objs), 1))}
    if op == 'move_property':
        return {'op': op, 'p': p(), 'idx': rng.randrange(max(len(props), 1))}
    if op in ('remove_empty_objects', 'remove_empty_properties'):
        return {'op': op}
    other = rng.choice(sorted(live))
    if op in ('ior', 'iand'):
        return {'op': op, 'other': other, 'ignore': False}
    return {'op': op, 'other': other, 'ignore': rng.random() < 0.5}


def rand_derive(rng, cur, onames, pnames, live):
    op = rng.choice(['copy', 'transposed', 'neg', 'inverted', 'invert', 'take', 'take', 'union', 'or',
                     'intersection', 'and'])
    if op == 'take':
        def side(have, names):
            if rng.random() < 0.3:
                return {'given': False, 'names': []}
            k = rng.randint(0, 4)
            pool = have if have and rng.random() < 0.8 else names
            return {'given': True, 'names': [rng.choice(pool) for _ in range(k)]}
        return {'op': op, 'objects': side(cur['objs'], onames), 'properties': side(cur['props'], pnames),
                'reorder': rng.random() < 0.5}
    if op in ('union', 'intersection'):
        return {'op': op, 'other': rng.choice(sorted(live)), 'ignore': rng.random() < 0.5}
    if op in ('or', 'and'):
        return {'op': op, 'other': rng.choice(sorted(live)), 'ignore': False}
    return {'op': op}


def bigwalk(rec, b, rng):
    """Definitions with 70-150 names per axis: unions, intersections, take, bulk adds (few steps, large values)."""
    import corpus
    onames = [f'o{i}' for i in range(150)]
    pnames = [f'p{i}' for i in range(140)]
    rec.reset(b)

    def big_def(lo, hi, plo, phi):
        objs, props = onames[lo:hi], pnames[plo:phi]
        return {'objs': objs, 'props': props,
                'cells': [[o, p] for o in objs for p in props if (hash_free(o, p) + lo) % 5 == 0]}

    def hash_free(o, p):
        return int(o[1:]) * 7 + int(p[1:]) * 3
    rec.new(1, big_def(0, 100, 0, 80))
    rec.new(2, big_def(50, 150, 40, 140))
    rec.new(3, {'objs': [], 'props': [], 'cells': []})
    rec.op(3, {'op': 'union_update', 'other': 1, 'ignore': False})
    rec.op(3, {'op': 'ior', 'other': 2, 'ignore': False})
    rec.op(3, {'op': 'union_update', 'other': 2, 'ignore': True})
    rec.derive(1, {'op': 'union', 'other': 2, 'ignore': True}, 4)
    rec.derive(2, {'op': 'or', 'other': 1, 'ignore': False}, 5)
    rec.derive(1, {'op': 'intersection', 'other': 2, 'ignore': True}, 6)
    rec.op(1, {'op': 'add_object', 'o': 'znew', 'names': pnames[70:110]})
    rec.op(1, {'op': 'set_property', 'p': 'ynew', 'names': onames[90:140]})
    rec.derive(1, {'op': 'take', 'objects': {'given': True, 'names': onames[95:20:-1]},
                   'properties': {'given': True, 'names': pnames[75:5:-3]}, 'reorder': True}, 7)
    rec.op(6, {'op': 'intersection_update', 'other': 4, 'ignore': True})
    rec.op(4, {'op': 'remove_empty_properties'})
    rec.op(2, {'op': 'iand', 'other': 1, 'ignore': False})


def hugewalk(rec, b, rng):
    """More than 256 names on an axis: derivations that drop hundreds of names, then calls that use a dropped
    name again (a forgotten membership entry shows only then)."""
    onames = [f'o{i}' for i in range(300)]
    pnames = [f'p{i}' for i in range(8)]
    rec.reset(b)
    d = {'objs': onames, 'props': pnames, 'cells': [[o, pnames[i % 8]] for i, o in enumerate(onames) if i % 3]}
    t = {'objs': pnames, 'props': onames, 'cells': [[c[1], c[0]] for c in d['cells']]}
    rec.new(1, d)
    rec.new(2, t)
    keep = onames[5:15]
    G = {'given': True, 'names': keep}
    N = {'given': False, 'names': []}
    rec.derive(1, {'op': 'take', 'objects': G, 'properties': N, 'reorder': False}, 3)        # drops 290 objects
    rec.derive(2, {'op': 'take', 'objects': N, 'properties': G, 'reorder': False}, 4)        # drops 290 properties
    rec.new(5, {'objs': onames[10:20], 'props': pnames[:4], 'cells': [[onames[12], pnames[12 % 4]]]})
    rec.derive(1, {'op': 'intersection', 'other': 5, 'ignore': True}, 6)                     # drops 290 objects
    for h, name_axis in ((3, 'o'), (6, 'o'), (4, 'p')):
        dropped = onames[100]
        if name_axis == 'o':
            rec.op(h, {'op': 'add_object', 'o': dropped, 'names': [pnames[0]]})
            rec.op(h, {'op': 'setitem', 'o': onames[200], 'p': pnames[1], 'v': True})
            rec.op(h, {'op': 'rename_object', 'old': keep[0] if h == 3 else onames[12], 'new': onames[250]})
            rec.op(h, {'op': 'remove_object', 'o': onames[299]})
        else:
            rec.op(h, {'op': 'add_property', 'p': dropped, 'names': [pnames[0]]})
            rec.op(h, {'op': 'setitem', 'o': pnames[1], 'p': onames[200], 'v': True})
            rec.op(h, {'op': 'rename_property', 'old': keep[0], 'new': onames[250]})
            rec.op(h, {'op': 'remove_property', 'p': onames[299]})
    rec.derive(3, {'op': 'union', 'other': 6, 'ignore': False}, 7)
    rec.op(1, {'op': 'intersection_update', 'other': 5, 'ignore': True})
    rec.op(1, {'op': 'add_object', 'o': onames[100], 'names': []})
    rec.op(2, {'op': 'iand', 'other': 4, 'ignore': False})
    rec.op(2, {'op': 'set_property', 'p': onames[101], 'names': [pnames[0]]})


def walk(rec, b, rng, steps, big):
    if b % 40 == 5:
        return bigwalk(rec, b, rng)
    if b % 40 == 25:
        return hugewalk(rec, b, rng)
    if big:
        onames = [f'o{i}' for i in range(5)] + ['o\u00e4\u0416', 's1', 's2']
        pnames = [f'p{i}' for i in range(5)] + ['p\u00fc \u65e5', 's1', 's2']
    else:
        onames = ['a', 'b', 'c', 's', 'caf\u00e9', 'cafe\u0301', '', '0']
        pnames = ['x', 'y', 'z', 's', '\u00c5', '\u212b', '', '0']
    rec.reset(b)
    nexth = 1
    for _ in range(rng.randint(1, 3)):
        rec.new(nexth, rand_def(rng, onames, pnames))
        nexth += 1
    nextc = 1
    for _ in range(steps):
        live = rec.live
        h = rng.choice(sorted(live))
        cur = rec_def.triple(live[h])
        x = rng.random()
        if x < 0.68:
            rec.op(h, rand_call(rng, cur, onames, pnames, live))
        elif x < 0.85:
            if len(live) >= 5:
                drop = rng.choice(sorted(live))
                del rec.live[drop]
                rec.ev('def.drop', h=drop)
                if not rec.live:
                    rec.new(nexth, rand_def(rng, onames, pnames))
                    nexth += 1
                continue
            rec.derive(h, rand_derive(rng, cur, onames, pnames, live), nexth)
            nexth += 1
        elif x < 0.93:
            if rec.freeze(h, nextc) == 'ok':
                rec.ctx_meta(nextc)
                if len(rec.ctxs) >= 2:
                    a, c2 = rng.sample(sorted(rec.ctxs), 2)
                    rec.ctx_eq(a, c2)
                    rec.ctx_eq(a, a)
                nextc += 1
        elif rec.ctxs and len(live) < 5:
            rec.thaw(rng.choice(sorted(rec.ctxs)), nexth)
            nexth += 1


def pairs_c14(rec, b, s1, s2, onames, pnames, stride=1):
    """One pair of small definitions x every derivation choice x every single follow-up edit on source / result."""
    derivs = [{'op': 'copy'}, {'op': 'transposed'}, {'op': 'neg'}, {'op': 'inverted'}, {'op': 'invert'}]
    for op in ('union', 'intersection'):
        for g in (False, True):
            derivs.append({'op': op, 'other': 2, 'ignore': g})
    derivs += [{'op': 'or', 'other': 2, 'ignore': False}, {'op': 'and', 'other': 2, 'ignore': False}]
    N = {'given': False, 'names': []}
    for on in ([], ['a'], ['b', 'a'], ['a', 'q']):
        for pn in ([], ['x'], ['x', 'q']):
            for reorder in (False, True):
                derivs.append({'op': 'take', 'objects': {'given': True, 'names': on},
                               'properties': {'given': True, 'names': pn}, 'reorder': reorder})
    derivs.append({'op': 'take', 'objects': N, 'properties': N, 'reorder': False})
    derivs.append({'op': 'take', 'objects': {'given': True, 'names': ['b', 'a']}, 'properties': N, 'reorder': True})
    derivs.append({'op': 'take', 'objects': N, 'properties': {'given': True, 'names': ['y', 'x', 'y']}, 'reorder': True})
    edits = [{'op': 'setitem', 'o': 'a', 'p': 'x', 'v': True}, {'op': 'setitem', 'o': 'a', 'p': 'x', 'v': False},
             {'op': 'setitem', 'o': 'n', 'p': 'm', 'v': True},
             {'op': 'add_object', 'o': 'n', 'names': ['x']}, {'op': 'add_property', 'p': 'm', 'names': ['a']},
             {'op': 'set_object', 'o': 'a', 'names': []}, {'op': 'set_property', 'p': 'x', 'names': ['a', 'b']},
             {'op': 'remove_object', 'o': 'a'}, {'op': 'remove_property', 'p': 'x'},
             {'op': 'rename_object', 'old': 'a', 'new': 'n'}, {'op': 'rename_property', 'old': 'x', 'new': 'm'},
             {'op': 'move_object', 'o': 'b', 'idx': 0}, {'op': 'move_property', 'p': 'y', 'idx': 0},
             {'op': 'remove_empty_objects'}, {'op': 'remove_empty_properties'},
             {'op': 'union_update', 'other': 2, 'ignore': True},
             {'op': 'intersection_update', 'other': 2, 'ignore': True}]
    for di, dv in enumerate(derivs):
        for target in (1, 3, 2):
            for ei, ed in enumerate(edits):
                if stride > 1 and (b + di + ei + target) % stride and not (ei == 0 and target == 1):
                    continue
                rec.reset(b)
                rec.new(1, s1)
                rec.new(2, s2)
                if rec.derive(1, dv, 3) != 'ok':
                    break
                if ed.get('other') == 2 and target == 2:
                    ed = dict(ed, other=1)
                rec.op(target, ed)
            else:
                continue
            break
        # freeze / thaw of source and result
        rec.reset(b)
        rec.new(1, s1)
        rec.new(2, s2)
        if rec.derive(1, dv, 3) == 'ok':
            if rec.freeze(3, 1) == 'ok':
                rec.ctx_meta(1)
                rec.thaw(1, 4)
                rec.op(4, {'op': 'setitem', 'o': 'a', 'p': 'x', 'v': True})
                rec.op(3, {'op': 'setitem', 'o': 'a', 'p': 'x', 'v': False})
                if rec.freeze(1, 2) == 'ok':
                    rec.ctx_eq(1, 2)
                    rec.ctx_eq(2, 1)
                if rec.freeze(4, 3) == 'ok':
                    rec.ctx_eq(1, 3)


def main():
    ap = argparse.ArgumentParser()
    ap.add_argument('--mode', required=True, choices=['edges', 'paths2', 'walks', 'pairs', 'tlcwalks'])
    ap.add_argument('--cases', default=None)
    ap.add_argument('--prop', default='C13')
    ap.add_argument('--universe', default='q22')
    ap.add_argument('--seed', type=int, default=0)
    ap.add_argument('--shard', type=int, default=0)
    ap.add_argument('--nshards', type=int, default=1)
    ap.add_argument('--count', type=int, default=100)
    ap.add_argument('--steps', type=int, default=40)
    ap.add_argument('--fraction', type=float, default=1.0)
    ap.add_argument('--stride', type=int, default=1)
    ap.add_argument('--only', type=int, default=None)
    ap.add_argument('--out', required=True)
    a = ap.parse_args()
    import concepts
    if not os.path.realpath(concepts.__file__).startswith(os.path.realpath(os.environ.get('VERIF_REPO', '/repo'))):
        raise SystemExit('wrong copy of concepts imported: ' + concepts.__file__)
    stats = {'behaviours': 0, 'events': 0, 'nontrivial': 0, 'samples': [], 'edges': 0, 'states': 0, 'paths': 0,
             'errors_seen': 0}
    f = open(a.out, 'w', encoding='utf-8')

    def emit(d):
        f.write(json.dumps(d, ensure_ascii=True, separators=(',', ':')) + '\n')
        stats['events'] += 1
        if d.get('out') not in (None, 'ok'):
            stats['errors_seen'] += 1
    rec = rec_def.DefRecorder(emit, concepts, a.prop)

    def mine(i):
        return i == a.only if a.only is not None else i % a.nshards == a.shard

    if a.mode in ('edges', 'paths2'):
        onames, pnames, maxlist = UNIVERSES[a.universe]
        sts = states(onames, pnames)
        stats['universe_states'] = len(sts)
        rngf = random.Random(f'{a.seed}:frac')
        for si, s in enumerate(sts):
            if not mine(si):
                continue
            rec.reset(si)
            for h, v in Q_OTHERS.items():
                rec.new(h, v)
            cs = calls(s, onames, pnames, maxlist, sorted(Q_OTHERS))
            stats['states'] += 1
            stats['behaviours'] += 1
            for ci, c in enumerate(cs):
                rec.new(1, s)
                rec.op(1, c)
                stats['edges'] += 1
                if a.mode == 'paths2' and (a.fraction >= 1.0 or
                                           random.Random(f'{a.seed}:{si}:{ci}').random() < a.fraction):
                    post = rec_def.triple(rec.live[1])
                    for c2 in calls(post, onames, pnames, maxlist, sorted(Q_OTHERS)):
                        rec.fork(1, 2)
                        rec.op(2, c2)
                        stats['paths'] += 1
                    del rec.live[2]
                    rec.ev('def.drop', h=2)
            if s['cells'] and len(stats['samples']) < 1:
                stats['samples'].append({'state': s, 'first_calls': cs[:3]})
            stats['nontrivial'] += bool(s['objs'] and s['props'])
    elif a.mode == 'tlcwalks':
        # behaviours chosen by TLC (-simulate on DefSys.tla): replay the call sequence on one live object
        with open(a.cases, encoding='utf-8') as cf:
            for w, line in enumerate(cf):
                if not mine(w):
                    continue
                hist = json.loads(line)
                rec.reset(w)
                for h, v in Q_OTHERS.items():
                    rec.new(h, v)
                rec.new(1, mk('', '', []))
                n0 = stats['errors_seen']
                for c in hist:
                    if 'other' in c:
                        c = dict(c, other=100 + c['other'])
                    rec.op(1, c)
                stats['behaviours'] += 1
                stats['nontrivial'] += stats['errors_seen'] > n0
                if not stats['samples']:
                    stats['samples'].append({'tlc_simulated_history': hist})
    elif a.mode == 'walks':
        for w in range(a.count):
            if not mine(w):
                continue
            rng = random.Random(f'{a.seed}:walk:{w}')
            n0 = stats['errors_seen']
            walk(rec, w, rng, a.steps, big=(w % 2 == 0))
            stats['behaviours'] += 1
            stats['nontrivial'] += stats['errors_seen'] > n0
            if len(stats['samples']) < 1:
                stats['samples'].append({'walk': w, 'steps': a.steps})
    else:
        onames, pnames = ['a', 'b'], ['x']
        sts = states(onames, pnames) if a.universe == 'q21' else states(['a', 'b'], ['x', 'y'])
        stats['universe_states'] = len(sts)
        rngf = random.Random(f'{a.seed}:pairs')
        i = 0
        for s1 in sts:
            for s2 in sts:
                keep = a.fraction >= 1.0 or rngf.random() < a.fraction
                if mine(i) and (keep or a.only is not None):
                    pairs_c14(rec, i, s1, s2, onames, pnames, a.stride)
                    stats['behaviours'] += 1
                    stats['nontrivial'] += bool(s1['cells'] or s2['cells'])
                    if len(stats['samples']) < 1 and s1['cells'] and s2['cells']:
                        stats['samples'].append({'pair': [s1, s2]})
                i += 1
    f.close()
    print(json.dumps(stats))


if __name__ == '__main__':
    main()
