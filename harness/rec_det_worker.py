"""Worker for C17: run the same call corpus in child interpreters with different PYTHONHASHSEEDs and merge the
observations into one trace (event i = the K observations of call i)."""
import argparse
import json
import os
import subprocess
import sys

HERE = os.path.dirname(os.path.abspath(__file__))


def main():
    ap = argparse.ArgumentParser()
    ap.add_argument('--tier', default='quick')
    ap.add_argument('--seed', type=int, default=0)
    ap.add_argument('--shard', type=int, default=0)
    ap.add_argument('--nshards', type=int, default=1)
    ap.add_argument('--only', type=int, default=None)
    ap.add_argument('--out', required=True)
    a = ap.parse_args()
    seeds = ['0', '1', '2', '3'] if a.tier == 'quick' else ['0', '1', '2', '3', '7', '11', '101', '4242', '65537',
                                                            '999983', 'random', 'random']
    runs = []
    for hs in seeds:
        env = dict(os.environ, PYTHONHASHSEED=hs)
        p = subprocess.run([sys.executable, os.path.join(HERE, 'rec_det_child.py'), str(a.shard), str(a.nshards),
                            str(a.seed), a.tier], env=env, capture_output=True, text=True)
        if p.returncode != 0:
            raise SystemExit('child failed: ' + p.stderr[-3000:])
        runs.append(json.loads(p.stdout))
    stats = {'behaviours': len(seeds), 'events': 0, 'nontrivial': 0, 'samples': [], 'hash_seeds': len(seeds)}
    n = max(len(r) for r in runs)
    with open(a.out, 'w', encoding='utf-8') as f:
        for i in range(n):
            calls = [r[i]['call'] if i < len(r) else '<missing>' for r in runs]
            obs = [r[i]['obs'] if i < len(r) else '<missing>' for r in runs]
            if a.only is not None and i != a.only:
                continue
            f.write(json.dumps({'b': i, 'ev': 'det', 'calls': calls, 'obs': obs, 'seeds': seeds},
                               ensure_ascii=True, separators=(',', ':')) + '\n')
            stats['events'] += 1
            stats['nontrivial'] += len(obs[0]) > 40
            if not stats['samples'] and i == 3:
                stats['samples'].append({'call': calls[0], 'observation': obs[0][:300], 'hash_seeds': seeds})
    print(json.dumps(stats))


if __name__ == '__main__':
    main()
