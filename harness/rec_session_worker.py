"""Worker: replay behaviours of spec/SessionSys.tla (chosen by TLC's simulator) on real Context objects.

One behaviour = one session of up to H live handles over ONE label universe and NTables tables of one shape:
new / query(family) / fail / derive(copy|pickle|definition|dict|force) / drop in the order TLC chose.

--emit ctx   : every library call of every step is recorded as a TraceCtx event (validated by TraceCtx.tla: the
               responses must be those of the table the handle holds, whatever happened to other handles before);
--emit flags : after every step the lazy-lattice flag of every live handle is observed through
               todict(ignore_lattice=None) and logged with the action (validated by TraceSession.tla).
"""
import argparse
import copy
import gc
import json
import os
import pickle
import random
import sys

sys.path.insert(0, os.path.dirname(os.path.abspath(__file__)))
sys.path.insert(0, os.environ.get('VERIF_REPO', '/repo'))

import corpus  # noqa: E402
import rec_ctx  # noqa: E402

BASE = 1_000_000          # session behaviours are numbered from here (main plan behaviours stay below)
SHAPES = [(2, 2), (2, 3), (3, 2), (3, 3), (3, 4), (4, 3), (4, 4), (5, 3), (1, 3), (3, 1)]
NTABLES = 3


def tables_for(rng, n, m):
    """NTABLES tables of one shape: a random one, its complement, and one more (often with equal rows/columns)."""
    def rnd():
        return [[j for j in range(1, m + 1) if rng.random() < 0.5] for _ in range(n)]
    t1 = rnd()
    t2 = [[j for j in range(1, m + 1) if j not in set(r)] for r in t1]
    t3 = rnd()
    if rng.random() < 0.5 and n > 1:
        t3[-1] = list(t3[0])
    return [corpus.Table(n, m, t, f'session-{n}x{m}-t{i + 1}') for i, t in enumerate((t1, t2, t3))]


def cached(ctx):
    return 'lattice' in ctx.todict(ignore_lattice=None)


def clone_rec(src, ctx, emit, C):
    r = rec_ctx.CtxRecorder(emit, C)
    r.b, r._kind, r.table = src.b, src._kind + 1, src.table
    r.olabels, r.plabels, r.opos, r.ppos = src.olabels, src.plabels, src.opos, src.ppos
    r.ctx, r._members = ctx, None
    return r


_TMP = []


def tmpdir():
    if not _TMP:
        import atexit
        import shutil
        import tempfile
        _TMP.append(tempfile.mkdtemp(prefix='verif-sess-'))
        atexit.register(shutil.rmtree, _TMP[0], ignore_errors=True)
    return _TMP[0]


def derive(C, ctx, how, rng):
    if how == 'copy':
        return ctx.copy() if rng.random() < 0.5 else copy.copy(ctx)
    if how == 'pickle':
        return pickle.loads(pickle.dumps(ctx, protocol=rng.choice([2, pickle.HIGHEST_PROTOCOL])))
    if how == 'definition':
        return C.Context(*ctx.definition())
    if how in ('table', 'cxt', 'csv'):
        labels = list(ctx.objects) + list(ctx.properties)
        if not all(x.isascii() and x.isalnum() for x in labels):
            return C.Context(*ctx.definition())         # labels the text format cannot carry: same table, no lattice
        if rng.random() < 0.5:
            return C.Context.fromstring(ctx.tostring(frmat=how), frmat=how)
        path = os.path.join(tmpdir(), f'sess.{how}' if how != 'table' else 'sess.txt')
        ctx.tofile(path, frmat=how)
        return C.Context.fromfile(path, frmat=how)
    if how == 'literal':
        return C.Context.fromstring(ctx.tostring(frmat='python-literal'), frmat='python-literal')
    if how == 'json':
        path = os.path.join(tmpdir(), 'sess.json')
        ctx.tojson(path, ignore_lattice=None)
        return C.Context.fromjson(path)
    if how == 'dict':
        d = ctx.todict(ignore_lattice=None)          # the lattice travels iff it has been computed
        new = C.Context.fromdict(copy.deepcopy(d))
    else:
        d = ctx.todict() if rng.random() < 0.5 else ctx.todict(ignore_lattice=False)   # the default IS False
        new = C.Context.fromdict(copy.deepcopy(d), require_lattice=True)
    # the exported document belongs to the caller
    for v in d.values():
        if isinstance(v, list):
            v.reverse()
    d.clear()
    return new


def observe_handle(emit, C, b, h, rec):
    """Full public observation of a handle (however it was derived and whatever was called on it and on its
    siblings) against a context built from scratch from the table the model says it holds."""
    from rec_persist_worker import observe, digest
    try:
        o = digest(observe(rec.ctx))
        f = digest(observe(C.Context(rec.olabels, rec.plabels, rec.table.bools())))
        emit({'b': b, 'ev': 's.obs', 'h': h, 'out': 'ok', 'obs': o, 'fresh': f})
    except Exception as exc:
        emit({'b': b, 'ev': 's.obs', 'h': h, 'out': type(exc).__name__, 'obs': '', 'fresh': '', 'msg': str(exc)[:200]})


def fail_calls(rec, lazy):
    c = rec.ctx
    bad = [lambda: c.intension(['<no such object>']), lambda: c.extension(['<no such property>']),
           lambda: c[('<neither>',)], lambda: c.neighbors(['<no such object>']),
           lambda: c.intension([rec.olabels[0], '<no such object>']), lambda: c.extension(rec.olabels[:1]),
           lambda: c.intension(rec.plabels[:1]), lambda: c.intension([None]),
           lambda: c.tostring(frmat='no-such-format'), lambda: c.todict(no_such_argument=1)]
    if lazy:
        bad = [lambda: c.lattice['<neither>',], lambda: c.lattice(['<no such property>']),
               lambda: c.lattice[10 ** 9], lambda: c.lattice.join([object()]),
               lambda: c.lattice[rec.olabels[:1] + ['<no such object>']]]
    raised = 0
    for f in bad:
        try:
            f()
        except Exception:
            raised += 1
    return raised


def run_session(emit, C, prop, hist, b, seed, mode):
    rng = random.Random(f'{seed}:session:{b}')
    n, m = SHAPES[b % len(SHAPES)]
    lv = (b // len(SHAPES)) % 4
    tables = tables_for(rng, n, m)
    sink = (lambda d: None)
    cemit = emit if mode == 'ctx' else sink
    recs = {}
    nsteps = 0
    if mode == 'flags':
        emit({'b': b, 'ev': 's.reset'})
    for a in hist:
        out = 'ok'
        try:
            with rec_ctx.watchdog(rec_ctx.CALL_TIMEOUT):
                if a['a'] == 'new':
                    r = rec_ctx.CtxRecorder(cemit, C)
                    r.new(tables[a['t'] - 1], b, lv)
                    recs[a['h']] = r
                elif a['a'] == 'query':
                    r = recs[a['h']]
                    fams = {a['fam']}
                    if isinstance(r.ctx, rec_ctx.OrphanShim):
                        rec_ctx.drive_orphans(r, r.table, b, fams, rng, keep=True)
                    else:
                        rec_ctx.drive(r, r.table, b, fams, rng, False, nsub=3, nmulti=3, label_variant=lv, construct=False,
                                   touch_cached=False)
                elif a['a'] == 'fail':
                    fail_calls(recs[a['h']], a['lazy'])
                elif a['a'] == 'derive':
                    src = recs[a['h']]
                    recs[a['g']] = clone_rec(src, derive(C, src.ctx, a['how'], rng), cemit, C)
                elif a['a'] == 'abort':
                    rec_ctx.abort_drawing(recs[a['h']])
                elif a['a'] == 'orphan':
                    r = recs[a['h']]
                    r.members                       # the concept objects the caller keeps ...
                    if getattr(r._members[0], 'lattice', None) is r.ctx.lattice:
                        r.ctx = rec_ctx.OrphanShim(r._members)      # ... and nothing else
                    else:                           # no public Concept.lattice in this version: keep the context
                        r.ctx = rec_ctx.KeepShim(r.ctx)
                    gc.collect()
                elif a['a'] == 'drop':
                    if mode == 'flags' and not isinstance(recs[a['h']].ctx, rec_ctx.OrphanShim):
                        observe_handle(emit, C, b, a['h'], recs[a['h']])
                    del recs[a['h']]
                    gc.collect()
        except Exception as exc:
            out = type(exc).__name__
            if mode == 'ctx':
                emit({'b': b, 'ev': 'crash', 'prop': 'C11', 'call': 'session:' + a['a'], 'args': json.dumps(a),
                      'exc': out, 'msg': str(exc)[:300]})
        nsteps += 1
        if mode == 'flags':
            try:
                flags = [[h, bool(cached(r.ctx))] for h, r in sorted(recs.items())
                         if not isinstance(r.ctx, rec_ctx.OrphanShim)]
            except Exception as exc:
                flags, out = [], 'flags:' + type(exc).__name__
            emit({'b': b, 'ev': 's.step', 'a': a, 'flags': flags, 'out': out})
    if mode == 'flags':
        for h, r in sorted(recs.items()):          # whatever is still alive at the end of the session
            if not isinstance(r.ctx, rec_ctx.OrphanShim):
                observe_handle(emit, C, b, h, r)
    return n, m, tables


def main():
    ap = argparse.ArgumentParser()
    ap.add_argument('--prop', required=True)
    ap.add_argument('--tier', default='quick')
    ap.add_argument('--seed', type=int, default=0)
    ap.add_argument('--shard', type=int, default=0)
    ap.add_argument('--nshards', type=int, default=1)
    ap.add_argument('--out', required=True)
    ap.add_argument('--only', type=int, default=None)
    ap.add_argument('--cases', required=True, help='behaviours printed by TLC (SessionSys.tla), one JSON list per line')
    ap.add_argument('--emit', default='ctx', choices=['ctx', 'flags'])
    a = ap.parse_args()
    import concepts
    if not os.path.realpath(concepts.__file__).startswith(os.path.realpath(os.environ.get('VERIF_REPO', '/repo'))):
        raise SystemExit('wrong copy of concepts imported: ' + concepts.__file__)
    hists = [json.loads(line) for line in open(a.cases, encoding='utf-8') if line.strip()]
    stats = {'behaviours': 0, 'events': 0, 'nontrivial': 0, 'samples': [], 'steps': 0, 'exhaustive_tables': 0,
             'max_concepts': 0, 'max_width': 0}
    with open(a.out, 'w', encoding='utf-8') as f:
        def emit(d):
            f.write(json.dumps(d, ensure_ascii=True, separators=(',', ':')) + '\n')
            stats['events'] += 1
        for i, hist in enumerate(hists):
            b = BASE + i
            if a.only is not None:
                if b != a.only:
                    continue
            elif i % a.nshards != a.shard:
                continue
            n, m, tables = run_session(emit, concepts, a.prop, hist, b, a.seed, a.emit)
            stats['behaviours'] += 1
            stats['steps'] += len(hist)
            stats['nontrivial'] += len({(x['a'], x.get('fam'), x.get('how')) for x in hist}) >= 4
            if not stats['samples']:
                stats['samples'].append({'b': b, 'n': n, 'm': m, 'tables': [t.rows for t in tables], 'session': hist})
    print(json.dumps(stats))


if __name__ == '__main__':
    main()
